// verif-replay: property=C09
// verif-replay: module=c09
// verif-replay: harness=c09_q_point_noshx_fab
// verif-replay: failed="a finalize with nothing new to commit performed I/O on the .shp (or an effective one did not)" @ src/c09.rs:80:5 [c09::one_history::<shapefile::Point, 320, 3>]
/// Test generated for harness `c09::c09_q_point_noshx_fab` 
///
/// Check for `assertion`: ""a finalize with nothing new to commit performed I/O on the .shp (or an effective one did not)""

#[test]
fn kani_concrete_playback_c09_q_point_noshx_fab_12547159966540090355() {
    let concrete_vals: Vec<Vec<u8>> = vec![
        // 0ul
        vec![0, 0, 0, 0, 0, 0, 0, 0],
        // 0ul
        vec![0, 0, 0, 0, 0, 0, 0, 0],
        // 0ul
        vec![0, 0, 0, 0, 0, 0, 0, 0],
        // 0ul
        vec![0, 0, 0, 0, 0, 0, 0, 0],
        // 0ul
        vec![0, 0, 0, 0, 0, 0, 0, 0],
        // 0ul
        vec![0, 0, 0, 0, 0, 0, 0, 0],
        // 0ul
        vec![0, 0, 0, 0, 0, 0, 0, 0],
        // 0ul
        vec![0, 0, 0, 0, 0, 0, 0, 0],
    ];
    kani::concrete_playback_run(concrete_vals, c09_q_point_noshx_fab);
}

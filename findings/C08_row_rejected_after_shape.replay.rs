// verif-replay: property=C08
// verif-replay: module=c08
// verif-replay: harness=c08_q_valid_rowwithoutfield
// verif-replay: failed="a failed call left the .shp/.shx and the .dbf with different entry counts" @ src/c08.rs:86:5 [c08::pairing]
/// Test generated for harness `c08::c08_q_valid_rowwithoutfield` 
///
/// Check for `assertion`: ""a failed call left the .shp/.shx and the .dbf with different entry counts""
///
/// # Warning
///
/// Concrete playback tests combined with stubs or contracts is highly
/// experimental, and subject to change.
///
/// The original harness has stubs which are not applied to this test.
/// This may cause a mismatch of non-deterministic values if the stub
/// creates any non-deterministic value.
/// The execution path may also differ, which can be used to refine the stub
/// logic.

#[test]
fn kani_concrete_playback_c08_q_valid_rowwithoutfield_12475476867193773362() {
    let concrete_vals: Vec<Vec<u8>> = vec![
        // 0ul
        vec![0, 0, 0, 0, 0, 0, 0, 0],
        // 0ul
        vec![0, 0, 0, 0, 0, 0, 0, 0],
        // 0ul
        vec![0, 0, 0, 0, 0, 0, 0, 0],
        // 0ul
        vec![0, 0, 0, 0, 0, 0, 0, 0],
    ];
    kani::concrete_playback_run(concrete_vals, c08_q_valid_rowwithoutfield);
}

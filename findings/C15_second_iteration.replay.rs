// verif-replay: property=C15
// verif-replay: module=c15
// verif-replay: harness=c15_t_nth1_iter1_then_iterate
// verif-replay: failed="iteration yielded another sequence than the history allows (wrong record, error, or too many / too few items)" @ src/c15.rs:112:13 [c15::history]
/// Test generated for harness `c15::c15_t_nth1_iter1_then_iterate` 
///
/// Check for `assertion`: ""iteration yielded another sequence than the history allows (wrong record, error, or too many / too few items)""

#[test]
fn kani_concrete_playback_c15_t_nth1_iter1_then_iterate_10178462401717685078() {
    let concrete_vals: Vec<Vec<u8>> = vec![
        // 0ul
        vec![0, 0, 0, 0, 0, 0, 0, 0],
        // 0ul
        vec![0, 0, 0, 0, 0, 0, 0, 0],
        // 0ul
        vec![0, 0, 0, 0, 0, 0, 0, 0],
        // 0ul
        vec![0, 0, 0, 0, 0, 0, 0, 0],
        // 0ul
        vec![0, 0, 0, 0, 0, 0, 0, 0],
        // 0ul
        vec![0, 0, 0, 0, 0, 0, 0, 0],
        // 0ul
        vec![0, 0, 0, 0, 0, 0, 0, 0],
        // 0ul
        vec![0, 0, 0, 0, 0, 0, 0, 0],
        // 0ul
        vec![0, 0, 0, 0, 0, 0, 0, 0],
        // 0ul
        vec![0, 0, 0, 0, 0, 0, 0, 0],
        // 0ul
        vec![0, 0, 0, 0, 0, 0, 0, 0],
        // 0ul
        vec![0, 0, 0, 0, 0, 0, 0, 0],
        // 9223372036854775808ul
        vec![0, 0, 0, 0, 0, 0, 0, 128],
        // 0ul
        vec![0, 0, 0, 0, 0, 0, 0, 0],
        // 0ul
        vec![0, 0, 0, 0, 0, 0, 0, 0],
        // 0ul
        vec![0, 0, 0, 0, 0, 0, 0, 0],
        // 0ul
        vec![0, 0, 0, 0, 0, 0, 0, 0],
        // 0ul
        vec![0, 0, 0, 0, 0, 0, 0, 0],
        // 0ul
        vec![0, 0, 0, 0, 0, 0, 0, 0],
        // 0ul
        vec![0, 0, 0, 0, 0, 0, 0, 0],
        // 0ul
        vec![0, 0, 0, 0, 0, 0, 0, 0],
        // 0ul
        vec![0, 0, 0, 0, 0, 0, 0, 0],
        // 0ul
        vec![0, 0, 0, 0, 0, 0, 0, 0],
        // 0ul
        vec![0, 0, 0, 0, 0, 0, 0, 0],
        // 0ul
        vec![0, 0, 0, 0, 0, 0, 0, 0],
        // 0ul
        vec![0, 0, 0, 0, 0, 0, 0, 0],
        // 0ul
        vec![0, 0, 0, 0, 0, 0, 0, 0],
        // 0ul
        vec![0, 0, 0, 0, 0, 0, 0, 0],
        // 0ul
        vec![0, 0, 0, 0, 0, 0, 0, 0],
        // 0ul
        vec![0, 0, 0, 0, 0, 0, 0, 0],
        // 0ul
        vec![0, 0, 0, 0, 0, 0, 0, 0],
        // 0ul
        vec![0, 0, 0, 0, 0, 0, 0, 0],
        // 0ul
        vec![0, 0, 0, 0, 0, 0, 0, 0],
        // 0ul
        vec![0, 0, 0, 0, 0, 0, 0, 0],
        // 0ul
        vec![0, 0, 0, 0, 0, 0, 0, 0],
        // 0ul
        vec![0, 0, 0, 0, 0, 0, 0, 0],
    ];
    kani::concrete_playback_run(concrete_vals, c15_t_nth1_iter1_then_iterate);
}

// verif-replay: property=C17
// verif-replay: module=c17
// verif-replay: harness=c17_q_alloc_multipoint
// verif-replay: failed=attempt to subtract with overflow @ ../../repo/src/record/mod.rs:58:9 [<shapefile::record::multipoint::GenericMultipoint<shapefile::Point> as shapefile::ReadableShape>::read_from::<env::MemSource<'_>>]
// verif-replay: failed=attempt to multiply with overflow @ ../../repo/src/record/multipoint.rs:238:17 [shapefile::record::multipoint::GenericMultipoint::<shapefile::Point>::size_of_record]
// verif-replay: failed="memory requested out of proportion to the input (more than 64 x input bytes + 4096)" @ src/env.rs:634:5 [std::vec::Vec::<shapefile::Point>::with_capacity]
/// Test generated for harness `c17::c17_q_alloc_multipoint` 
///
/// Check for `assertion`: "attempt to subtract with overflow"
///
/// # Warning
///
/// Concrete playback tests combined with stubs or contracts is highly
/// experimental, and subject to change.
///
/// The original harness has stubs which are not applied to this test.
/// This may cause a mismatch of non-deterministic values if the stub
/// creates any non-deterministic value.
/// The execution path may also differ, which can be used to refine the stub
/// logic.

#[test]
fn kani_concrete_playback_c17_q_alloc_multipoint_10876787939392471084() {
    let concrete_vals: Vec<Vec<u8>> = vec![
        // 0
        vec![0],
        // 0
        vec![0],
        // 0
        vec![0],
        // 0
        vec![0],
        // 0
        vec![0],
        // 0
        vec![0],
        // 0
        vec![0],
        // 0
        vec![0],
        // 0
        vec![0],
        // 0
        vec![0],
        // 0
        vec![0],
        // 0
        vec![0],
        // 0
        vec![0],
        // 0
        vec![0],
        // 0
        vec![0],
        // 0
        vec![0],
        // 0
        vec![0],
        // 0
        vec![0],
        // 0
        vec![0],
        // 0
        vec![0],
        // 0
        vec![0],
        // 0
        vec![0],
        // 0
        vec![0],
        // 0
        vec![0],
        // 0
        vec![0],
        // 0
        vec![0],
        // 0
        vec![0],
        // 0
        vec![0],
        // 0
        vec![0],
        // 0
        vec![0],
        // 0
        vec![0],
        // 0
        vec![0],
        // 0
        vec![0],
        // 0
        vec![0],
        // 0
        vec![0],
        // 0
        vec![0],
        // 0
        vec![0],
        // 0
        vec![0],
        // 0
        vec![0],
        // 0
        vec![0],
        // 0
        vec![0],
        // 0
        vec![0],
        // 0
        vec![0],
        // 0
        vec![0],
        // 0
        vec![0],
        // 0
        vec![0],
        // 0
        vec![0],
        // 0
        vec![0],
        // 0
        vec![0],
        // 0
        vec![0],
        // 0
        vec![0],
        // 0
        vec![0],
        // 0
        vec![0],
        // 0
        vec![0],
        // 0
        vec![0],
        // 0
        vec![0],
        // 0
        vec![0],
        // 0
        vec![0],
        // 0
        vec![0],
        // 0
        vec![0],
        // 0
        vec![0],
        // 0
        vec![0],
        // 0
        vec![0],
        // 0
        vec![0],
        // 0
        vec![0],
        // 0
        vec![0],
        // 0
        vec![0],
        // 0
        vec![0],
        // 0
        vec![0],
        // 0
        vec![0],
        // 0
        vec![0],
        // 0
        vec![0],
        // -2147483648
        vec![0, 0, 0, 128],
    ];
    kani::concrete_playback_run(concrete_vals, c17_q_alloc_multipoint);
}

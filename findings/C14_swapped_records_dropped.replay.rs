// verif-replay: property=C14
// verif-replay: module=c14
// verif-replay: harness=c14_q_points_swapped
// verif-replay: failed="iteration ended before the index was exhausted (record dropped)" @ src/c14.rs:64:33 [c14::layout::<shapefile::Point, 256>]
/// Test generated for harness `c14::c14_q_points_swapped` 
///
/// Check for `assertion`: ""iteration ended before the index was exhausted (record dropped)""

#[test]
fn kani_concrete_playback_c14_q_points_swapped_14407606383224330577() {
    let concrete_vals: Vec<Vec<u8>> = vec![
        // 0
        vec![0],
        // 0
        vec![0],
        // 0
        vec![0],
        // 0
        vec![0],
        // 0
        vec![0],
        // 0
        vec![0],
        // 0
        vec![0],
        // 0
        vec![0],
        // 0
        vec![0],
        // 0
        vec![0],
        // 0
        vec![0],
        // 0
        vec![0],
        // 0
        vec![0],
        // 0
        vec![0],
        // 0
        vec![0],
        // 0
        vec![0],
        // 0
        vec![0],
        // 0
        vec![0],
        // 0
        vec![0],
        // 0
        vec![0],
        // 0
        vec![0],
        // 0
        vec![0],
        // 0
        vec![0],
        // 0
        vec![0],
        // 0
        vec![0],
        // 0
        vec![0],
        // 0
        vec![0],
        // 0
        vec![0],
        // 0
        vec![0],
        // 0
        vec![0],
        // 0
        vec![0],
        // 0
        vec![0],
        // 0
        vec![0],
        // 0
        vec![0],
        // 0
        vec![0],
        // 0
        vec![0],
        // 0
        vec![0],
        // 0
        vec![0],
        // 0
        vec![0],
        // 0
        vec![0],
        // 0
        vec![0],
        // 0
        vec![0],
        // 0
        vec![0],
        // 0
        vec![0],
        // 0
        vec![0],
        // 0
        vec![0],
        // 0
        vec![0],
        // 0
        vec![0],
        // 0
        vec![0],
        // 0
        vec![0],
        // 0
        vec![0],
        // 0
        vec![0],
        // 0
        vec![0],
        // 0
        vec![0],
        // 0
        vec![0],
        // 0
        vec![0],
        // 0
        vec![0],
        // 0
        vec![0],
        // 0
        vec![0],
        // 0
        vec![0],
        // 0
        vec![0],
        // 0
        vec![0],
        // 0
        vec![0],
        // 0
        vec![0],
        // 0
        vec![0],
        // 0
        vec![0],
        // 0
        vec![0],
        // 0
        vec![0],
        // 0
        vec![0],
        // 0
        vec![0],
        // 0
        vec![0],
        // 0
        vec![0],
        // 0
        vec![0],
        // 0
        vec![0],
        // 0
        vec![0],
        // 0
        vec![0],
        // 0
        vec![0],
        // 0
        vec![0],
        // 0
        vec![0],
        // 0
        vec![0],
        // 0
        vec![0],
        // 0
        vec![0],
        // 0
        vec![0],
        // 0
        vec![0],
        // 0
        vec![0],
        // 0
        vec![0],
        // 0
        vec![0],
        // 0
        vec![0],
        // 0
        vec![0],
        // 0
        vec![0],
        // 0
        vec![0],
        // 0
        vec![0],
        // 0
        vec![0],
        // 0
        vec![0],
        // 0
        vec![0],
        // 0
        vec![0],
        // 0
        vec![0],
        // 0
        vec![0],
        // 0
        vec![0],
        // 0
        vec![0],
        // 0
        vec![0],
        // 0
        vec![0],
        // 0
        vec![0],
        // 0
        vec![0],
        // 0
        vec![0],
        // 0
        vec![0],
        // 0
        vec![0],
        // 0
        vec![0],
        // 0
        vec![0],
        // 0
        vec![0],
        // 0
        vec![0],
        // 0
        vec![0],
        // 0
        vec![0],
        // 0
        vec![0],
        // 0
        vec![0],
        // 0
        vec![0],
        // 0
        vec![0],
        // 0
        vec![0],
        // 0
        vec![0],
        // 0
        vec![0],
        // 0
        vec![0],
        // 0
        vec![0],
        // 0
        vec![0],
        // 0
        vec![0],
        // 0
        vec![0],
        // 0
        vec![0],
        // 0
        vec![0],
        // 0
        vec![0],
        // 0
        vec![0],
        // 0
        vec![0],
        // 0
        vec![0],
        // 0
        vec![0],
        // 0
        vec![0],
        // 0
        vec![0],
        // 0
        vec![0],
        // 0
        vec![0],
        // 0
        vec![0],
        // 0
        vec![0],
        // 0
        vec![0],
        // 0
        vec![0],
        // 0
        vec![0],
        // 0
        vec![0],
        // 0
        vec![0],
        // 0
        vec![0],
        // 0
        vec![0],
        // 0
        vec![0],
        // 0
        vec![0],
        // 0
        vec![0],
        // 0
        vec![0],
        // 0
        vec![0],
        // 0
        vec![0],
        // 0
        vec![0],
        // 0
        vec![0],
        // 0
        vec![0],
        // 0
        vec![0],
        // 0
        vec![0],
        // 0
        vec![0],
        // 0
        vec![0],
        // 0
        vec![0],
        // 0
        vec![0],
        // 0
        vec![0],
        // 0
        vec![0],
        // 0
        vec![0],
        // 0
        vec![0],
        // 0
        vec![0],
        // 0
        vec![0],
        // 0
        vec![0],
        // 0
        vec![0],
        // 0
        vec![0],
        // 0
        vec![0],
        // 0
        vec![0],
        // 0
        vec![0],
        // 0
        vec![0],
        // 0
        vec![0],
        // 0
        vec![0],
        // 0
        vec![0],
        // 0
        vec![0],
        // 0
        vec![0],
        // 0
        vec![0],
        // 0
        vec![0],
        // 0
        vec![0],
        // 0
        vec![0],
        // 0
        vec![0],
        // 0
        vec![0],
        // 0
        vec![0],
        // 0
        vec![0],
        // 0
        vec![0],
        // 0
        vec![0],
        // 0
        vec![0],
        // 0
        vec![0],
        // 0
        vec![0],
        // 0
        vec![0],
        // 0
        vec![0],
        // 0
        vec![0],
        // 0
        vec![0],
        // 0
        vec![0],
        // 0
        vec![0],
        // 0
        vec![0],
        // 0
        vec![0],
        // 0
        vec![0],
        // 0
        vec![0],
        // 0
        vec![0],
        // 0
        vec![0],
        // 0
        vec![0],
        // 0
        vec![0],
        // 0
        vec![0],
        // 0
        vec![0],
        // 0
        vec![0],
        // 0
        vec![0],
        // 0
        vec![0],
        // 0
        vec![0],
        // 0
        vec![0],
        // 0
        vec![0],
        // 0
        vec![0],
        // 0
        vec![0],
        // 0
        vec![0],
        // 0
        vec![0],
        // 0
        vec![0],
        // 0
        vec![0],
        // 0
        vec![0],
        // 0
        vec![0],
        // 0
        vec![0],
        // 0
        vec![0],
        // 0
        vec![0],
        // 0
        vec![0],
        // 0
        vec![0],
        // 0
        vec![0],
        // 0
        vec![0],
        // 0
        vec![0],
        // 0
        vec![0],
        // 0
        vec![0],
        // 0
        vec![0],
        // 0
        vec![0],
        // 0
        vec![0],
        // 0
        vec![0],
        // 0
        vec![0],
        // 0
        vec![0],
        // 0
        vec![0],
        // 0
        vec![0],
        // 0
        vec![0],
        // 0
        vec![0],
        // 0
        vec![0],
        // 0
        vec![0],
        // 0
        vec![0],
        // 0
        vec![0],
        // 0
        vec![0],
        // 0
        vec![0],
        // 0
        vec![0],
        // 0
        vec![0],
        // 0
        vec![0],
        // 0
        vec![0],
        // 0
        vec![0],
        // 0
        vec![0],
        // 0
        vec![0],
        // 0
        vec![0],
        // 0
        vec![0],
        // 0ul
        vec![0, 0, 0, 0, 0, 0, 0, 0],
        // 0ul
        vec![0, 0, 0, 0, 0, 0, 0, 0],
        // 0ul
        vec![0, 0, 0, 0, 0, 0, 0, 0],
        // 0ul
        vec![0, 0, 0, 0, 0, 0, 0, 0],
        // 0ul
        vec![0, 0, 0, 0, 0, 0, 0, 0],
        // 0ul
        vec![0, 0, 0, 0, 0, 0, 0, 0],
        // 0ul
        vec![0, 0, 0, 0, 0, 0, 0, 0],
        // 0ul
        vec![0, 0, 0, 0, 0, 0, 0, 0],
        // 0ul
        vec![0, 0, 0, 0, 0, 0, 0, 0],
        // 0ul
        vec![0, 0, 0, 0, 0, 0, 0, 0],
        // 0ul
        vec![0, 0, 0, 0, 0, 0, 0, 0],
        // 0ul
        vec![0, 0, 0, 0, 0, 0, 0, 0],
        // 0ul
        vec![0, 0, 0, 0, 0, 0, 0, 0],
        // 0ul
        vec![0, 0, 0, 0, 0, 0, 0, 0],
        // 0ul
        vec![0, 0, 0, 0, 0, 0, 0, 0],
        // 0ul
        vec![0, 0, 0, 0, 0, 0, 0, 0],
        // 0ul
        vec![0, 0, 0, 0, 0, 0, 0, 0],
        // 0ul
        vec![0, 0, 0, 0, 0, 0, 0, 0],
        // 0ul
        vec![0, 0, 0, 0, 0, 0, 0, 0],
        // 0ul
        vec![0, 0, 0, 0, 0, 0, 0, 0],
        // 0ul
        vec![0, 0, 0, 0, 0, 0, 0, 0],
        // 0ul
        vec![0, 0, 0, 0, 0, 0, 0, 0],
        // 0ul
        vec![0, 0, 0, 0, 0, 0, 0, 0],
        // 0ul
        vec![0, 0, 0, 0, 0, 0, 0, 0],
    ];
    kani::concrete_playback_run(concrete_vals, c14_q_points_swapped);
}

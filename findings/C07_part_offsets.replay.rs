// verif-replay: property=C07
// verif-replay: module=c07
// verif-replay: harness=c07_q_decode_polyline
// verif-replay: failed=assertion failed: end_of_part_index >= start_of_part_index @ ../../repo/src/record/io.rs:172:13 [<shapefile::record::io::PartIndexIter<'_> as std::iter::Iterator>::next]
// verif-replay: failed=attempt to subtract with overflow @ ../../repo/src/record/io.rs:218:38 [shapefile::record::io::MultiPartShapeReader::<'_, shapefile::Point, &mut env::MemSource<'_>>::read_xy]
/// Test generated for harness `c07::c07_q_decode_polyline` 
///
/// Check for `assertion`: "assertion failed: end_of_part_index >= start_of_part_index"
///
/// # Warning
///
/// Concrete playback tests combined with stubs or contracts is highly
/// experimental, and subject to change.
///
/// The original harness has stubs which are not applied to this test.
/// This may cause a mismatch of non-deterministic values if the stub
/// creates any non-deterministic value.
/// The execution path may also differ, which can be used to refine the stub
/// logic.

#[test]
fn kani_concrete_playback_c07_q_decode_polyline_10732941000615835843() {
    let concrete_vals: Vec<Vec<u8>> = vec![
        // 255
        vec![255],
        // 255
        vec![255],
        // 255
        vec![255],
        // 255
        vec![255],
        // 2
        vec![2],
        // 0
        vec![0],
        // 0
        vec![0],
        // 127
        vec![127],
        // 2
        vec![2],
        // 0
        vec![0],
        // 0
        vec![0],
        // 0
        vec![0],
        // 2
        vec![2],
        // 0
        vec![0],
        // 0
        vec![0],
        // 127
        vec![127],
        // 2
        vec![2],
        // 0
        vec![0],
        // 0
        vec![0],
        // 0
        vec![0],
        // 2
        vec![2],
        // 0
        vec![0],
        // 0
        vec![0],
        // 127
        vec![127],
        // 2
        vec![2],
        // 0
        vec![0],
        // 0
        vec![0],
        // 0
        vec![0],
        // 2
        vec![2],
        // 0
        vec![0],
        // 0
        vec![0],
        // 127
        vec![127],
        // 2
        vec![2],
        // 0
        vec![0],
        // 0
        vec![0],
        // 0
        vec![0],
        // 255
        vec![255],
        // 255
        vec![255],
        // 255
        vec![255],
        // 255
        vec![255],
        // 255
        vec![255],
        // 255
        vec![255],
        // 255
        vec![255],
        // 255
        vec![255],
        // 2
        vec![2],
        // 0
        vec![0],
        // 0
        vec![0],
        // 127
        vec![127],
        // 2
        vec![2],
        // 0
        vec![0],
        // 0
        vec![0],
        // 0
        vec![0],
        // 2
        vec![2],
        // 0
        vec![0],
        // 0
        vec![0],
        // 127
        vec![127],
        // 2
        vec![2],
        // 0
        vec![0],
        // 0
        vec![0],
        // 0
        vec![0],
        // 2
        vec![2],
        // 0
        vec![0],
        // 0
        vec![0],
        // 127
        vec![127],
        // 2
        vec![2],
        // 0
        vec![0],
        // 0
        vec![0],
        // 0
        vec![0],
        // 2
        vec![2],
        // 0
        vec![0],
        // 0
        vec![0],
        // 127
        vec![127],
        // 2
        vec![2],
        // 0
        vec![0],
        // 0
        vec![0],
        // 0
        vec![0],
        // 2
        vec![2],
        // 0
        vec![0],
        // 0
        vec![0],
        // 127
        vec![127],
        // 2
        vec![2],
        // 0
        vec![0],
        // 0
        vec![0],
        // 0
        vec![0],
    ];
    kani::concrete_playback_run(concrete_vals, c07_q_decode_polyline);
}

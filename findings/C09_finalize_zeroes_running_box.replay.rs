// verif-replay: property=C09
// verif-replay: module=c09
// verif-replay: harness=c09_q_pointz_shx_afb
// verif-replay: failed=".shp differs from the one produced by the same writes and a plain drop" @ src/c09.rs:135:5 [c09::one_history::<shapefile::PointZ, 384, 3>]
/// Test generated for harness `c09::c09_q_pointz_shx_afb` 
///
/// Check for `assertion`: "".shp differs from the one produced by the same writes and a plain drop""

#[test]
fn kani_concrete_playback_c09_q_pointz_shx_afb_10344304395342361348() {
    let concrete_vals: Vec<Vec<u8>> = vec![
        // 9218868437227405312ul
        vec![0, 0, 0, 0, 0, 0, 240, 127],
        // 18442240474082181120ul
        vec![0, 0, 0, 0, 0, 0, 240, 255],
        // 0ul
        vec![0, 0, 0, 0, 0, 0, 0, 0],
        // 9221120237041090560ul
        vec![0, 0, 0, 0, 0, 0, 248, 127],
        // 9218868437227405312ul
        vec![0, 0, 0, 0, 0, 0, 240, 127],
        // 18442240474082181120ul
        vec![0, 0, 0, 0, 0, 0, 240, 255],
        // 0ul
        vec![0, 0, 0, 0, 0, 0, 0, 0],
        // 9223372036854775808ul
        vec![0, 0, 0, 0, 0, 0, 0, 128],
    ];
    kani::concrete_playback_run(concrete_vals, c09_q_pointz_shx_afb);
}

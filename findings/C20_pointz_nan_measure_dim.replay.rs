// verif-replay: property=C20
// verif-replay: module=c20
// verif-replay: harness=c20_q_traits_pointz_dims
// verif-replay: failed=asked for 4th item from coordinate but this coordinate does not have 4 dimensions. @ ../../repo/src/geo_traits_impl.rs:229:21 [shapefile::geo_traits_impl::<impl geo_traits::CoordTrait for shapefile::PointZ>::nth_or_panic]
/// Test generated for harness `c20::c20_q_traits_pointz_dims` 
///
/// Check for `assertion`: "asked for 4th item from coordinate but this coordinate does not have 4 dimensions."

#[test]
fn kani_concrete_playback_c20_q_traits_pointz_dims_18145357873371007302() {
    let concrete_vals: Vec<Vec<u8>> = vec![
        // 0ul
        vec![0, 0, 0, 0, 0, 0, 0, 0],
        // 0ul
        vec![0, 0, 0, 0, 0, 0, 0, 0],
        // 9218868437227405312ul
        vec![0, 0, 0, 0, 0, 0, 240, 127],
        // 9218868437227405313ul
        vec![1, 0, 0, 0, 0, 0, 240, 127],
        // 3ul
        vec![3, 0, 0, 0, 0, 0, 0, 0],
    ];
    kani::concrete_playback_run(concrete_vals, c20_q_traits_pointz_dims);
}

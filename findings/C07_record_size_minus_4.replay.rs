// verif-replay: property=C07
// verif-replay: module=c07
// verif-replay: harness=c07_q_decode_pointz
// verif-replay: failed=attempt to subtract with overflow @ ../../repo/src/record/mod.rs:58:9 [<shapefile::PointZ as shapefile::ReadableShape>::read_from::<env::MemSource<'_>>]
/// Test generated for harness `c07::c07_q_decode_pointz` 
///
/// Check for `assertion`: "attempt to subtract with overflow"
///
/// # Warning
///
/// Concrete playback tests combined with stubs or contracts is highly
/// experimental, and subject to change.
///
/// The original harness has stubs which are not applied to this test.
/// This may cause a mismatch of non-deterministic values if the stub
/// creates any non-deterministic value.
/// The execution path may also differ, which can be used to refine the stub
/// logic.

#[test]
fn kani_concrete_playback_c07_q_decode_pointz_7415481878166800070() {
    let concrete_vals: Vec<Vec<u8>> = vec![
        // 0
        vec![0],
        // 0
        vec![0],
        // 0
        vec![0],
        // 0
        vec![0],
        // 0
        vec![0],
        // 0
        vec![0],
        // 0
        vec![0],
        // 0
        vec![0],
        // 0
        vec![0],
        // 0
        vec![0],
        // 0
        vec![0],
        // 0
        vec![0],
        // 0
        vec![0],
        // 0
        vec![0],
        // 0
        vec![0],
        // 0
        vec![0],
        // 0
        vec![0],
        // 0
        vec![0],
        // 0
        vec![0],
        // 0
        vec![0],
        // 0
        vec![0],
        // 0
        vec![0],
        // 0
        vec![0],
        // 0
        vec![0],
        // 0
        vec![0],
        // 0
        vec![0],
        // 0
        vec![0],
        // 0
        vec![0],
        // 0
        vec![0],
        // 0
        vec![0],
        // 0
        vec![0],
        // 0
        vec![0],
        // 0
        vec![0],
        // 0
        vec![0],
        // 0
        vec![0],
        // 0
        vec![0],
        // -2147483648
        vec![0, 0, 0, 128],
    ];
    kani::concrete_playback_run(concrete_vals, c07_q_decode_pointz);
}

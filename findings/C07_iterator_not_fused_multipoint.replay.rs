// verif-replay: property=C07
// verif-replay: module=c07
// verif-replay: harness=c07_t_iterate_multipoint_any_bytes
// verif-replay: failed="iteration yields shapes after it reported an error" @ src/c07.rs:197:36 [c07::iterate_any::<shapefile::record::multipoint::GenericMultipoint<shapefile::Point>, 172>]
//  Test generated for harness `c07::c07_t_iterate_multipoint_any_bytes`   Check for `assertion`: ""iteration yields shapes after it reported an error""   # Warning   Concrete playback tests combined with stubs or contracts is highly  experimental, and subject to change.   The original harness has stubs which are not applied to this test.  This may cause a mismatch of non-deterministic values if the stub  creates any non-deterministic value.  The execution path may also differ, which can be used to refine the stub  logic.
#[test]
fn kani_concrete_playback_c07_t_iterate_multipoint_any_bytes_4606641032980426903() {
    let concrete_vals: Vec<Vec<u8>> = vec![
        // 255
        vec![255],
        // 255
        vec![255],
        // 255
        vec![255],
        // 255
        vec![255],
        // 0
        vec![0],
        // 0
        vec![0],
        // 0
        vec![0],
        // 0
        vec![0],
        // 0
        vec![0],
        // 0
        vec![0],
        // 0
        vec![0],
        // 0
        vec![0],
        // 0
        vec![0],
        // 0
        vec![0],
        // 0
        vec![0],
        // 0
        vec![0],
        // 0
        vec![0],
        // 0
        vec![0],
        // 0
        vec![0],
        // 0
        vec![0],
        // 0
        vec![0],
        // 0
        vec![0],
        // 0
        vec![0],
        // 0
        vec![0],
        // 0
        vec![0],
        // 0
        vec![0],
        // 0
        vec![0],
        // 51
        vec![51],
        // 255
        vec![255],
        // 255
        vec![255],
        // 255
        vec![255],
        // 255
        vec![255],
        // 255
        vec![255],
        // 255
        vec![255],
        // 255
        vec![255],
        // 255
        vec![255],
        // 255
        vec![255],
        // 255
        vec![255],
        // 255
        vec![255],
        // 255
        vec![255],
        // 8
        vec![8],
        // 0
        vec![0],
        // 0
        vec![0],
        // 0
        vec![0],
        // 255
        vec![255],
        // 255
        vec![255],
        // 255
        vec![255],
        // 127
        vec![127],
        // 255
        vec![255],
        // 255
        vec![255],
        // 255
        vec![255],
        // 255
        vec![255],
        // 255
        vec![255],
        // 255
        vec![255],
        // 255
        vec![255],
        // 255
        vec![255],
        // 255
        vec![255],
        // 255
        vec![255],
        // 255
        vec![255],
        // 255
        vec![255],
        // 255
        vec![255],
        // 255
        vec![255],
        // 255
        vec![255],
        // 255
        vec![255],
        // 8
        vec![8],
        // 255
        vec![255],
        // 255
        vec![255],
        // 255
        vec![255],
        // 255
        vec![255],
        // 255
        vec![255],
        // 255
        vec![255],
        // 255
        vec![255],
        // 255
        vec![255],
        // 255
        vec![255],
        // 255
        vec![255],
        // 255
        vec![255],
        // 255
        vec![255],
        // 255
        vec![255],
        // 255
        vec![255],
        // 127
        vec![127],
        // 255
        vec![255],
        // 255
        vec![255],
        // 255
        vec![255],
        // 255
        vec![255],
        // 255
        vec![255],
        // 255
        vec![255],
        // 255
        vec![255],
        // 255
        vec![255],
        // 255
        vec![255],
        // 255
        vec![255],
        // 255
        vec![255],
        // 255
        vec![255],
        // 255
        vec![255],
        // 255
        vec![255],
        // 255
        vec![255],
        // 255
        vec![255],
        // 255
        vec![255],
        // 255
        vec![255],
        // 255
        vec![255],
        // 255
        vec![255],
        // 255
        vec![255],
        // 255
        vec![255],
        // 255
        vec![255],
        // 255
        vec![255],
        // 0
        vec![0],
        // 0
        vec![0],
        // 0
        vec![0],
        // 20
        vec![20],
        // 0
        vec![0],
        // 0
        vec![0],
        // 0
        vec![0],
        // 0
        vec![0],
        // 0
        vec![0],
        // 0
        vec![0],
        // 0
        vec![0],
        // 3
        vec![3],
        // 0
        vec![0],
        // 0
        vec![0],
        // 0
        vec![0],
        // 20
        vec![20],
        // 8
        vec![8],
        // 0
        vec![0],
        // 0
        vec![0],
        // 0
        vec![0],
        // 0
        vec![0],
        // 0
        vec![0],
        // 0
        vec![0],
        // 0
        vec![0],
        // 0
        vec![0],
        // 0
        vec![0],
        // 0
        vec![0],
        // 0
        vec![0],
        // 255
        vec![255],
        // 255
        vec![255],
        // 255
        vec![255],
        // 255
        vec![255],
        // 255
        vec![255],
        // 255
        vec![255],
        // 255
        vec![255],
        // 255
        vec![255],
        // 255
        vec![255],
        // 255
        vec![255],
        // 255
        vec![255],
        // 255
        vec![255],
        // 0
        vec![0],
        // 0
        vec![0],
        // 0
        vec![0],
        // 0
        vec![0],
        // 255
        vec![255],
        // 255
        vec![255],
        // 255
        vec![255],
        // 255
        vec![255],
        // 255
        vec![255],
        // 255
        vec![255],
        // 255
        vec![255],
        // 255
        vec![255],
        // 0
        vec![0],
        // 0
        vec![0],
        // 0
        vec![0],
        // 0
        vec![0],
        // 0
        vec![0],
        // 0
        vec![0],
        // 0
        vec![0],
        // 3
        vec![3],
        // 0
        vec![0],
        // 0
        vec![0],
        // 0
        vec![0],
        // 37
        vec![37],
        // 8
        vec![8],
        // 1
        vec![1],
        // 0
        vec![0],
        // 0
        vec![0],
    ];
    kani::concrete_playback_run(concrete_vals, c07_t_iterate_multipoint_any_bytes);
}

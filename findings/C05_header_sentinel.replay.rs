// verif-replay: property=C05
// verif-replay: module=c05
// verif-replay: harness=c05_q_header_point_2
// verif-replay: failed="header X range is not exact" @ src/c05.rs:182:13 [c05::header_box::<shapefile::Point, 192>]
// verif-replay: failed="header Y range is not exact" @ src/c05.rs:183:13 [c05::header_box::<shapefile::Point, 192>]
/// Test generated for harness `c05::c05_q_header_point_2` 
///
/// Check for `assertion`: ""header X range is not exact""

#[test]
fn kani_concrete_playback_c05_q_header_point_2_1580051006192557696() {
    let concrete_vals: Vec<Vec<u8>> = vec![
        // 18442240474082181120ul
        vec![0, 0, 0, 0, 0, 0, 240, 255],
        // 18442240474082181103ul
        vec![239, 255, 255, 255, 255, 255, 239, 255],
        // 18442240474082181120ul
        vec![0, 0, 0, 0, 0, 0, 240, 255],
        // 0ul
        vec![0, 0, 0, 0, 0, 0, 0, 0],
        // 18442240474082181120ul
        vec![0, 0, 0, 0, 0, 0, 240, 255],
        // 9216616635266236157ul
        vec![253, 254, 255, 127, 255, 255, 231, 127],
        // 18442240474082181120ul
        vec![0, 0, 0, 0, 0, 0, 240, 255],
        // 0ul
        vec![0, 0, 0, 0, 0, 0, 0, 0],
    ];
    kani::concrete_playback_run(concrete_vals, c05_q_header_point_2);
}

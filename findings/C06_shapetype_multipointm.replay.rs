// verif-replay: property=C06
// verif-replay: module=c06
// verif-replay: harness=c06_q_identity_multipointm
// verif-replay: failed="generic value reports another type than its concrete type" @ src/c06.rs:41:5 [c06::identity::<shapefile::record::multipoint::GenericMultipoint<shapefile::PointM>>]
/// Test generated for harness `c06::c06_q_identity_multipointm` 
///
/// Check for `assertion`: ""generic value reports another type than its concrete type""

#[test]
fn kani_concrete_playback_c06_q_identity_multipointm_13086280248774573263() {
    let concrete_vals: Vec<Vec<u8>> = vec![
        // 0ul
        vec![0, 0, 0, 0, 0, 0, 0, 0],
        // 0ul
        vec![0, 0, 0, 0, 0, 0, 0, 0],
        // 0ul
        vec![0, 0, 0, 0, 0, 0, 0, 0],
        // 0ul
        vec![0, 0, 0, 0, 0, 0, 0, 0],
        // 0ul
        vec![0, 0, 0, 0, 0, 0, 0, 0],
        // 0ul
        vec![0, 0, 0, 0, 0, 0, 0, 0],
        // 0ul
        vec![0, 0, 0, 0, 0, 0, 0, 0],
        // 0ul
        vec![0, 0, 0, 0, 0, 0, 0, 0],
    ];
    kani::concrete_playback_run(concrete_vals, c06_q_identity_multipointm);
}

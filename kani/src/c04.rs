//! C04 — (harnesses not written yet)

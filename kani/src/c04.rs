//! C04 — the .shx index written alongside a .shp addresses exactly its records.
use crate::env::*;
use crate::model::*;
use crate::refcodec::*;
use shapefile::record::{ConcreteReadableShape, ReadableShape, WritableShape};
use shapefile::*;

/// Real `ShapeWriter::with_shx`, n shapes of pairwise different sizes, then
/// (1) the .shx bytes against an independent walk of the .shp bytes,
/// (2) the real reader with both images: count, random access at 0..=n+1, iteration with
///     and without the index, size hints.
pub fn index<S: TShape, const N: usize>(specs: &[Spec], explicit_finalize: bool, mode: u8) {
    let n = specs.len();
    let mut built = [Model::empty(S::CODE); MAXR];
    let mut shp = MemFile::<N>::new();
    let mut shx = MemFile::<N>::new();
    {
        let mut w = ShapeWriter::with_shx(&mut shp, &mut shx);
        let mut i = 0;
        while i < n {
            let m = sym_spec(S::CODE, &specs[i]);
            let s = S::build(&m);
            built[i] = s.extract();
            let r = w.write_shape(&s);
            assert!(r.is_ok());
            std::mem::forget(r);
            i += 1;
        }
        if explicit_finalize {
            let r = w.finalize();
            assert!(r.is_ok());
            std::mem::forget(r);
        }
    }
    // (1) bytes
    if mode == 0 {
    assert!(shx.len == 100 + 8 * n, ".shx length is not 100 + 8n bytes");
    match walk_shp(&shp.buf, shp.len) {
        Some(w) => {
            assert!(w.n == n);
            // same header except the length field
            let mut a = 0;
            while a < 10 {
                let mut b = 0;
                while b < 10 {
                    let i = a * 10 + b;
                    if i < 24 || i >= 28 {
                        assert!(shx.buf[i] == shp.buf[i], ".shx header differs from the .shp header");
                    }
                    b += 1;
                }
                a += 1;
            }
            assert!(get_i32_be(&shx.buf, 24) as usize == 50 + 4 * n, ".shx length field is not 50+4n words");
            let mut i = 0;
            while i < n {
                let off = get_i32_be(&shx.buf, 100 + 8 * i);
                let len = get_i32_be(&shx.buf, 104 + 8 * i);
                assert!(off as usize * 2 == w.start[i], "index offset does not address the record header");
                assert!(len as usize * 2 == w.clen[i], "index content length differs from the record's");
                i += 1;
            }
        }
        None => assert!(false, ".shp is not well-formed"),
    }
    }
    // (2) reader
    if mode != 0 {
    let mut rd = ShapeReader::with_shx(
        MemSource::with_len(&shp.buf, shp.len),
        MemSource::with_len(&shx.buf, shx.len),
    );
    match &mut rd {
        Ok(rd) => {
            let c = rd.shape_count();
            assert!(matches!(c, Ok(k) if k == n), "shape_count differs from the number of shapes written");
            std::mem::forget(c);
            let mut i = 0;
            while mode == 1 && i < n + 2 {
                let item = rd.read_nth_shape_as::<S>(i);
                match &item {
                    Some(Ok(t)) => {
                        assert!(i < n, "random access past the end returned a shape");
                        crate::c01::assert_same_shape::<S>(&built[i], &t.extract());
                    }
                    None => assert!(i >= n, "random access inside the file returned nothing"),
                    Some(Err(_)) => assert!(false, "random access failed"),
                }
                std::mem::forget(item);
                i += 1;
            }
            // sequential with index, size hint before each next()
            if mode == 2 {
                let mut it = rd.iter_shapes_as::<S>();
                let mut i = 0;
                while i < n {
                    let h = it.size_hint();
                    assert!(h.0 == n - i && h.1 == Some(n - i), "size hint differs from the number of shapes still to come");
                    let item = it.next();
                    match &item {
                        Some(Ok(t)) => crate::c01::assert_same_shape::<S>(&built[i], &t.extract()),
                        _ => assert!(false, "iteration with index ended early or failed"),
                    }
                    std::mem::forget(item);
                    i += 1;
                }
                let h = it.size_hint();
                assert!(h.0 == 0 && h.1 == Some(0));
                let item = it.next();
                assert!(item.is_none(), "iteration with index yields more than n shapes");
                std::mem::forget(item);
            }
        }
        Err(_) => assert!(false, "reader could not be opened with the written index"),
    }
    std::mem::forget(rd);
    }
    // sequential without the index must agree
    if mode == 2 {
    let mut rd = ShapeReader::new(MemSource::with_len(&shp.buf, shp.len));
    match &mut rd {
        Ok(rd) => {
            let mut it = rd.iter_shapes_as::<S>();
            let mut i = 0;
            while i < n {
                let item = it.next();
                match &item {
                    Some(Ok(t)) => crate::c01::assert_same_shape::<S>(&built[i], &t.extract()),
                    _ => assert!(false, "iteration without index ended early or failed"),
                }
                std::mem::forget(item);
                i += 1;
            }
            let item = it.next();
            assert!(item.is_none());
            std::mem::forget(item);
        }
        Err(_) => assert!(false),
    }
    std::mem::forget(rd);
    }
    kani::cover!(true, "index checked against the .shp and through the reader");
}

macro_rules! ix {
    ($name:ident, $T:ty, $N:expr, $specs:expr, $fin:expr, $mode:expr) => {
        #[kani::proof]
        #[kani::unwind(22)]
        fn $name() {
            index::<$T, $N>(&$specs, $fin, $mode);
        }
    };
}
// H: part=.shx bytes vs independent walk of the .shp; tier=quick; sym=none; n=0; asserts=.shx is a 100-byte header with length 50 words equal to the .shp header elsewhere; shape_count 0; read_nth(0) None; iteration empty
ix!(c04_q_empty_bytes, Polyline, 128, [], false, 0);
// H: part=reader: shape_count and random access at 0..=n+1; tier=quick; sym=none; n=0; asserts=.shx is a 100-byte header with length 50 words equal to the .shp header elsewhere; shape_count 0; read_nth(0) None; iteration empty
ix!(c04_q_empty_nth, Polyline, 128, [], false, 1);
// H: part=reader: iteration with index + size hints, iteration without index; tier=quick; sym=none; n=0; asserts=.shx is a 100-byte header with length 50 words equal to the .shp header elsewhere; shape_count 0; read_nth(0) None; iteration empty
ix!(c04_q_empty_iter, Polyline, 128, [], false, 2);
// H: part=.shx bytes vs independent walk of the .shp; tier=quick; sym=Polyline records of [2], [3] points (different sizes); asserts=.shx entries == independent walk of the .shp; header equal except length=50+4n; count, random access 0..=n+1, iteration with/without index, size hints
ix!(c04_q_polyline_2_3_bytes, Polyline, 320, [spec(&[2]), spec(&[3])], false, 0);
// H: part=reader: shape_count and random access at 0..=n+1; tier=quick; sym=Polyline records of [2], [3] points (different sizes); asserts=.shx entries == independent walk of the .shp; header equal except length=50+4n; count, random access 0..=n+1, iteration with/without index, size hints
ix!(c04_q_polyline_2_3_nth, Polyline, 320, [spec(&[2]), spec(&[3])], false, 1);
// H: part=reader: iteration with index + size hints, iteration without index; tier=quick; sym=Polyline records of [2], [3] points (different sizes); asserts=.shx entries == independent walk of the .shp; header equal except length=50+4n; count, random access 0..=n+1, iteration with/without index, size hints
ix!(c04_q_polyline_2_3_iter, Polyline, 320, [spec(&[2]), spec(&[3])], false, 2);
// H: part=.shx bytes vs independent walk of the .shp; tier=quick; sym=3 Points, explicit finalize; asserts=as above with n=3
ix!(c04_q_point_3_bytes, Point, 192, [spec(&[]), spec(&[]), spec(&[])], true, 0);
// H: part=reader: shape_count and random access at 0..=n+1; tier=quick; sym=3 Points, explicit finalize; asserts=as above with n=3
ix!(c04_q_point_3_nth, Point, 192, [spec(&[]), spec(&[]), spec(&[])], true, 1);
// H: part=reader: iteration with index + size hints, iteration without index; tier=quick; sym=3 Points, explicit finalize; asserts=as above with n=3
ix!(c04_q_point_3_iter, Point, 192, [spec(&[]), spec(&[]), spec(&[])], true, 2);
// H: part=.shx bytes vs independent walk of the .shp; tier=quick; sym=PolylineZ records [2] then [2,2]; asserts=as above (Z/M layout, offsets not an arithmetic progression)
ix!(c04_q_polylinez_2_22_bytes, PolylineZ, 608, [spec(&[2]), spec(&[2, 2])], false, 0);
// H: part=reader: shape_count and random access at 0..=n+1; tier=quick; sym=PolylineZ records [2] then [2,2]; asserts=as above (Z/M layout, offsets not an arithmetic progression)
ix!(c04_q_polylinez_2_22_nth, PolylineZ, 608, [spec(&[2]), spec(&[2, 2])], false, 1);
// H: part=reader: iteration with index + size hints, iteration without index; tier=thorough; sym=PolylineZ records [2] then [2,2]; asserts=as above (Z/M layout, offsets not an arithmetic progression)
ix!(c04_q_polylinez_2_22_iter, PolylineZ, 608, [spec(&[2]), spec(&[2, 2])], false, 2);
// H: part=.shx bytes vs independent walk of the .shp; tier=thorough; sym=Polyline records [3], [2], [4]; asserts=as above with n=3 and pairwise different sizes
ix!(c04_t_polyline_3_2_4_bytes, Polyline, 448, [spec(&[3]), spec(&[2]), spec(&[4])], false, 0);
// H: part=reader: shape_count and random access at 0..=n+1; tier=thorough; sym=Polyline records [3], [2], [4]; asserts=as above with n=3 and pairwise different sizes
ix!(c04_t_polyline_3_2_4_nth, Polyline, 448, [spec(&[3]), spec(&[2]), spec(&[4])], false, 1);
// H: part=reader: iteration with index + size hints, iteration without index; tier=thorough; sym=Polyline records [3], [2], [4]; asserts=as above with n=3 and pairwise different sizes
ix!(c04_t_polyline_3_2_4_iter, Polyline, 448, [spec(&[3]), spec(&[2]), spec(&[4])], false, 2);
// H: part=.shx bytes vs independent walk of the .shp; tier=thorough; sym=MultipointM of 1, 3, 2 points; asserts=as above
ix!(c04_t_multipointm_1_3_2_bytes, MultipointM, 544, [spec(&[1]), spec(&[3]), spec(&[2])], true, 0);
// H: part=reader: shape_count and random access at 0..=n+1; tier=thorough; sym=MultipointM of 1, 3, 2 points; asserts=as above
ix!(c04_t_multipointm_1_3_2_nth, MultipointM, 544, [spec(&[1]), spec(&[3]), spec(&[2])], true, 1);
// H: part=reader: iteration with index + size hints, iteration without index; tier=thorough; sym=MultipointM of 1, 3, 2 points; asserts=as above
ix!(c04_t_multipointm_1_3_2_iter, MultipointM, 544, [spec(&[1]), spec(&[3]), spec(&[2])], true, 2);
// H: part=.shx bytes vs independent walk of the .shp; tier=thorough; sym=3 PointZ; asserts=as above
ix!(c04_t_pointz_3_bytes, PointZ, 256, [spec(&[]), spec(&[]), spec(&[])], false, 0);
// H: part=reader: shape_count and random access at 0..=n+1; tier=thorough; sym=3 PointZ; asserts=as above
ix!(c04_t_pointz_3_nth, PointZ, 256, [spec(&[]), spec(&[]), spec(&[])], false, 1);
// H: part=reader: iteration with index + size hints, iteration without index; tier=thorough; sym=3 PointZ; asserts=as above
ix!(c04_t_pointz_3_iter, PointZ, 256, [spec(&[]), spec(&[]), spec(&[])], false, 2);
// H: part=.shx bytes vs independent walk of the .shp; tier=thorough; sym=Multipatch [strip 3] then [fan 3, ring closed 4]; asserts=as above
ix!(c04_t_multipatch_2_bytes, Multipatch, 800, [spec_k(&[3], &[0], &[], &[]), spec_k(&[3, 4], &[1, 5], &[], &[1])], false, 0);
// H: part=reader: shape_count and random access at 0..=n+1; tier=thorough; sym=Multipatch [strip 3] then [fan 3, ring closed 4]; asserts=as above
ix!(c04_t_multipatch_2_nth, Multipatch, 800, [spec_k(&[3], &[0], &[], &[]), spec_k(&[3, 4], &[1, 5], &[], &[1])], false, 1);
// H: part=reader: iteration with index + size hints, iteration without index; tier=thorough; sym=Multipatch [strip 3] then [fan 3, ring closed 4]; asserts=as above
ix!(c04_t_multipatch_2_iter, Multipatch, 800, [spec_k(&[3], &[0], &[], &[]), spec_k(&[3, 4], &[1, 5], &[], &[1])], false, 2);
// H: part=.shx bytes vs independent walk of the .shp; tier=thorough; sym=PolylineM records [2] then [2,3]; asserts=as above
ix!(c04_t_polylinem_2_23_bytes, PolylineM, 704, [spec(&[2]), spec(&[2, 3])], false, 0);
// H: part=reader: shape_count and random access at 0..=n+1; tier=thorough; sym=PolylineM records [2] then [2,3]; asserts=as above
ix!(c04_t_polylinem_2_23_nth, PolylineM, 704, [spec(&[2]), spec(&[2, 3])], false, 1);
// H: part=reader: iteration with index + size hints, iteration without index; tier=thorough; sym=PolylineM records [2] then [2,3]; asserts=as above
ix!(c04_t_polylinem_2_23_iter, PolylineM, 704, [spec(&[2]), spec(&[2, 3])], false, 2);

//! C02 — (harnesses not written yet)

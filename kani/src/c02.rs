//! C02 — every written .shp is a well-formed ESRI shapefile (independent decoder).
use crate::env::*;
use crate::model::*;
use crate::refcodec::*;
use shapefile::record::{ConcreteReadableShape, ReadableShape, WritableShape};
use shapefile::*;

/// Real writer, `specs.len()` shapes, explicit finalize or plain drop; then the strict
/// independent walk + decode of the bytes left behind.
pub fn wellformed<S: TShape, const N: usize>(specs: &[Spec], explicit_finalize: bool) {
    wellformed_h::<S, N>(specs, explicit_finalize, usize::MAX)
}

/// Same, with an additional intermediate `finalize()` right after shape number `mid` (0-based;
/// `usize::MAX`: none): the file left behind after the LAST finalize/drop must still be well-formed
/// and hold every shape, i.e. shapes written after an earlier finalize are committed to the header too.
pub fn wellformed_h<S: TShape, const N: usize>(specs: &[Spec], explicit_finalize: bool, mid: usize) {
    let n = specs.len();
    let mut built = [Model::empty(S::CODE); MAXR];
    let mut shp = MemFile::<N>::new();
    {
        let mut w = ShapeWriter::new(&mut shp);
        let mut i = 0;
        while i < n {
            let m = sym_spec(S::CODE, &specs[i]);
            let s = S::build(&m);
            built[i] = s.extract();
            let r = w.write_shape(&s);
            assert!(r.is_ok());
            std::mem::forget(r);
            if i == mid {
                let r = w.finalize();
                assert!(r.is_ok());
                std::mem::forget(r);
            }
            i += 1;
        }
        if explicit_finalize {
            let r = w.finalize();
            assert!(r.is_ok());
            std::mem::forget(r);
        }
    }
    match walk_shp(&shp.buf, shp.len) {
        Some(w) => {
            assert!(w.n == n, "record count differs from the number of shapes written");
            if n == 0 {
                assert!(shp.len == 100);
            } else {
                assert!(w.header.code == S::CODE, "header type is not the type of the shapes");
            }
            let mut i = 0;
            while i < n {
                match dec_content(&shp.buf, w.start[i] + 8, w.clen[i]) {
                    Some(d) => assert!(decoded_equals_built(&d, &built[i]), "decoded record differs from the shape written"),
                    None => assert!(false, "record content is not well-formed"),
                }
                i += 1;
            }
            kani::cover!(true, "file walked and decoded by the independent decoder");
        }
        None => assert!(false, "file is not well-formed"),
    }
}

macro_rules! wf {
    ($name:ident, $T:ty, $N:expr, $specs:expr, $fin:expr) => {
        #[kani::proof]
        #[kani::unwind(22)]
        fn $name() {
            wellformed::<$T, $N>(&$specs, $fin);
        }
    };
}

macro_rules! wfh {
    ($name:ident, $T:ty, $N:expr, $specs:expr, $fin:expr, $mid:expr) => {
        #[kani::proof]
        #[kani::unwind(22)]
        fn $name() {
            wellformed_h::<$T, $N>(&$specs, $fin, $mid);
        }
    };
}

// H: tier=quick; sym=none; n=0 shapes, drop only; asserts=100-byte header, length field 50 words, no records
wf!(c02_q_empty_drop, Point, 128, [], false);
// H: tier=quick; sym=2 Points; asserts=strict walk (code 9994, zero words, length, version, type, record numbers 1..2, content lengths, no gap/trailing byte) + decoded == written
wf!(c02_q_point_2, Point, 192, [spec(&[]), spec(&[])], false);
// H: tier=quick; sym=1 PointM, explicit finalize; asserts=strict walk + decoded == written (M raw)
wf!(c02_q_pointm_1_finalize, PointM, 160, [spec(&[])], true);
// H: tier=quick; sym=2 PointZ; asserts=strict walk + decoded == written
wf!(c02_q_pointz_2, PointZ, 224, [spec(&[]), spec(&[])], false);
// H: tier=quick; sym=Multipoint of 2 then 1 points; asserts=strict walk + decoded == written (box, count, XY)
wf!(c02_q_multipoint_2_1, Multipoint, 288, [spec(&[2]), spec(&[1])], false);
// H: tier=quick; sym=MultipointM 2 points; asserts=strict walk + decoded == written (M range + M array)
wf!(c02_q_multipointm_2, MultipointM, 256, [spec(&[2])], false);
// H: tier=quick; sym=MultipointZ 2 points; asserts=strict walk + decoded == written (Z range+array, M range+array)
wf!(c02_q_multipointz_2, MultipointZ, 288, [spec(&[2])], false);
// H: tier=quick; sym=Polyline [2,3] then [2]; asserts=strict walk + part offsets ascending from 0 + decoded == written
wf!(c02_q_polyline_23_then_2, Polyline, 384, [spec(&[2, 3]), spec(&[2])], false);
// H: tier=quick; sym=PolylineM [2,2]; asserts=strict walk + decoded == written
wf!(c02_q_polylinem_22, PolylineM, 320, [spec(&[2, 2])], false);
// H: tier=quick; sym=PolylineZ [2,3], explicit finalize; asserts=strict walk + decoded == written
wf!(c02_q_polylinez_23_finalize, PolylineZ, 416, [spec(&[2, 3])], true);
// H: tier=quick; sym=Polygon rings [open 3 -> 4, closed 4]; asserts=strict walk + decoded == what the constructor built
wf!(c02_q_polygon_o3_c4, Polygon, 320, [spec_k(&[3, 4], &[0, 1], &[0], &[1])], false);
// H: tier=quick; sym=PolygonM ring closed 4; asserts=strict walk + decoded == built
wf!(c02_q_polygonm_c4, PolygonM, 288, [spec_k(&[4], &[0], &[], &[0])], false);
// H: tier=quick; sym=PolygonZ ring closed 4; asserts=strict walk + decoded == built
wf!(c02_q_polygonz_c4, PolygonZ, 352, [spec_k(&[4], &[0], &[], &[0])], false);
// H: tier=quick; sym=Multipatch [strip 3, outer ring closed 4]; asserts=strict walk + patch kinds + decoded == built
wf!(c02_q_multipatch_strip3_outer4, Multipatch, 448, [spec_k(&[3, 4], &[0, 2], &[], &[1])], false);
// H: tier=thorough; sym=3 PointZ; asserts=strict walk + decoded == written
wf!(c02_t_pointz_3, PointZ, 256, [spec(&[]), spec(&[]), spec(&[])], true);
// H: tier=thorough; sym=PolylineZ [2] then [2,2]; asserts=strict walk + decoded == written
wf!(c02_t_polylinez_2_then_22, PolylineZ, 608, [spec(&[2]), spec(&[2, 2])], false);
// H: tier=thorough; sym=PolylineM [3] then [2]; asserts=strict walk + decoded == written
wf!(c02_t_polylinem_3_then_2, PolylineM, 448, [spec(&[3]), spec(&[2])], false);
// H: tier=thorough; sym=MultipointZ 3 then 1; asserts=strict walk + decoded == written
wf!(c02_t_multipointz_3_1, MultipointZ, 512, [spec(&[3]), spec(&[1])], false);
// H: tier=thorough; sym=MultipointM 1 then 3; asserts=strict walk + decoded == written
wf!(c02_t_multipointm_1_3, MultipointM, 448, [spec(&[1]), spec(&[3])], false);
// H: tier=thorough; sym=Multipatch [fan 3, ring open 3] then [inner ring closed 4]; asserts=strict walk + decoded == built
wf!(c02_t_multipatch_two, Multipatch, 800, [spec_k(&[3, 3], &[1, 5], &[1], &[]), spec_k(&[4], &[3], &[], &[0])], false);
// H: tier=thorough; sym=PolygonZ [closed 4, open 3] then [closed 4]; asserts=strict walk + decoded == built
wf!(c02_t_polygonz_two, PolygonZ, 800, [spec_k(&[4, 3], &[0, 1], &[1], &[0]), spec_k(&[4], &[0], &[], &[0])], false);
// H: tier=thorough; sym=PolygonM [closed 4, closed 4]; asserts=strict walk + decoded == built
wf!(c02_t_polygonm_c4_c4, PolygonM, 448, [spec_k(&[4, 4], &[0, 1], &[], &[0, 1])], true);
// H: tier=thorough; sym=Polygon [closed 4] then [open 3]; asserts=strict walk + decoded == built
wf!(c02_t_polygon_two, Polygon, 448, [spec_k(&[4], &[0], &[], &[0]), spec_k(&[3], &[1], &[0], &[])], false);
// H: tier=thorough; sym=Polyline [2,3,4]; asserts=strict walk + decoded == written
wf!(c02_t_polyline_234, Polyline, 352, [spec(&[2, 3, 4])], false);

// H: tier=quick; sym=2 Points, finalize after the first, then drop; asserts=strict walk of the final file (header length covers both records) + decoded == written
wfh!(c02_q_point_2_midfinalize_drop, Point, 192, [spec(&[]), spec(&[])], false, 0);
// H: tier=quick; sym=3 PointM, finalize after the second, explicit finalize at the end; asserts=strict walk of the final file + decoded == written
wfh!(c02_q_pointm_3_midfinalize_finalize, PointM, 256, [spec(&[]), spec(&[]), spec(&[])], true, 1);
// H: tier=thorough; sym=2 Polylines (2,3 then 2), finalize after the first, then drop; asserts=strict walk of the final file + decoded == written
wfh!(c02_t_polyline_23_then_2_midfinalize, Polyline, 384, [spec(&[2, 3]), spec(&[2])], false, 0);

//! C15 — reader results do not depend on what was called before.
use crate::c13::valid_image;
use crate::env::*;
use crate::model::*;
use crate::refcodec::*;
use shapefile::record::{ConcreteReadableShape, ReadableShape, WritableShape};
use shapefile::*;

/// Operations of a history.
#[derive(Clone, Copy)]
pub enum Op {
    /// new iterator, take j items (4 = until it ends)
    Iter(usize),
    /// read_nth_shape_as(i)
    Nth(usize),
    /// seek(k)
    Seek(usize),
    /// shape_count()
    Count,
}

fn same_pt(p: &Point, m: &Model) -> bool {
    beq(p.x, m.v[0][0]) && beq(p.y, m.v[0][1])
}

/// Runs `ops` on a reader over 3 Point records (symbolic payload, with index), checking every
/// return value against the specification; then a final iteration that must yield exactly the
/// records `exp_a` (or, when given, `exp_b`) in order and then end.
pub fn history(ops: &[Op], exp_a: &[usize], exp_b: Option<&[usize]>) {
    const N: usize = 192;
    let n = 3;
    let mut img = [0u8; N];
    let mut idx = [0u8; N];
    let pt = spec(&[]);
    let (len, xlen, _, models) = valid_image::<Point, N>(&mut img, &mut idx, &[spec(&[]), spec(&[]), spec(&[])]);
    let _ = pt;
    let mut rd = ShapeReader::with_shx(MemSource::with_len(&img, len), MemSource::with_len(&idx, xlen));
    match &mut rd {
        Ok(rd) => {
            let mut o = 0;
            while o < ops.len() {
                match ops[o] {
                    Op::Count => {
                        let c = rd.shape_count();
                        assert!(matches!(c, Ok(k) if k == n), "shape_count changed");
                        std::mem::forget(c);
                    }
                    Op::Nth(i) => {
                        let item = rd.read_nth_shape_as::<Point>(i);
                        match &item {
                            Some(Ok(p)) => assert!(i < n && same_pt(p, &models[i]), "random access returned another record"),
                            None => assert!(i >= n, "random access inside the file returned nothing"),
                            Some(Err(_)) => assert!(false, "random access failed"),
                        }
                        std::mem::forget(item);
                    }
                    Op::Seek(k) => {
                        let r = rd.seek(k);
                        assert!(r.is_ok());
                        std::mem::forget(r);
                    }
                    Op::Iter(j) => {
                        // return values of the intermediate iteration are checked by the
                        // harnesses whose final iteration it is; here only no-panic
                        let mut it = rd.iter_shapes_as::<Point>();
                        let mut t = 0;
                        while t < j {
                            let item = it.next();
                            let end = item.is_none();
                            std::mem::forget(item);
                            if end {
                                break;
                            }
                            t += 1;
                        }
                    }
                }
                o += 1;
            }
            // final iteration
            let mut ok_a = true;
            let mut ok_b = exp_b.is_some();
            let eb: &[usize] = match exp_b {
                Some(b) => b,
                None => &[],
            };
            let mut it = rd.iter_shapes_as::<Point>();
            let mut i = 0;
            while i < 5 {
                let item = it.next();
                match &item {
                    Some(Ok(p)) => {
                        ok_a = ok_a && i < exp_a.len() && same_pt(p, &models[exp_a[i]]);
                        ok_b = ok_b && i < eb.len() && same_pt(p, &models[eb[i]]);
                    }
                    Some(Err(_)) => {
                        ok_a = false;
                        ok_b = false;
                    }
                    None => {
                        ok_a = ok_a && i >= exp_a.len();
                        ok_b = ok_b && i >= eb.len();
                    }
                }
                let end = item.is_none();
                std::mem::forget(item);
                if end {
                    break;
                }
                i += 1;
            }
            assert!(ok_a || ok_b, "iteration yielded another sequence than the history allows (wrong record, error, or too many / too few items)");
        }
        Err(_) => assert!(false),
    }
    std::mem::forget(rd);
    kani::cover!(true, "history executed");
}

macro_rules! hist {
    ($name:ident, $ops:expr, $a:expr, $b:expr) => {
        #[kani::proof]
        #[kani::unwind(34)]
        fn $name() {
            history(&$ops, &$a, $b);
        }
    };
}
use Op::*;
// H: tier=quick; unwind=34; sym=payload of 3 Points; history=[] (fresh reader); asserts=iteration yields records 0,1,2 then ends
hist!(c15_q_fresh, [], [0, 1, 2], None);
// H: tier=quick; unwind=34; sym=payload; history=[count, nth(2), nth(0), nth(3), count]; asserts=each random access returns its record (None past the end), count unchanged; then iteration yields 0,1,2 and ends
hist!(c15_q_random_access_then_iterate, [Count, Nth(2), Nth(0), Nth(3), Count], [0, 1, 2], None);
// H: tier=quick; unwind=34; sym=payload; history=[seek(0)]; asserts=iteration yields 0,1,2 and ends
hist!(c15_q_seek0_then_iterate, [Seek(0)], [0, 1, 2], None);
// H: tier=quick; unwind=34; sym=payload; history=[seek(1)]; asserts=iteration yields exactly 1,2 and ends
hist!(c15_q_seek1_then_iterate, [Seek(1)], [1, 2], None);
// H: tier=quick; unwind=34; sym=payload; history=[seek(2), nth(0)]; asserts=after a successful random access iteration starts at 0: 0,1,2
hist!(c15_q_seek2_nth0_then_iterate, [Seek(2), Nth(0)], [0, 1, 2], None);
// H: tier=quick; unwind=34; sym=payload; history=[iterate 1 item]; asserts=a further iteration yields 1,2 or 0,1,2, then ends
hist!(c15_q_iter1_then_iterate, [Iter(1)], [1, 2], Some(&[0, 1, 2]));
// H: tier=quick; unwind=34; sym=payload; history=[iterate all]; asserts=a further iteration yields nothing or 0,1,2
hist!(c15_q_iterall_then_iterate, [Iter(4)], [], Some(&[0, 1, 2]));
// H: tier=quick; unwind=34; sym=payload; history=[iterate 2, nth(1)]; asserts=random access returns record 1; iteration then yields 0,1,2
hist!(c15_q_iter2_nth1_then_iterate, [Iter(2), Nth(1)], [0, 1, 2], None);
// H: tier=thorough; unwind=34; sym=payload; history=[seek(3)] (one past the last); asserts=iteration yields nothing
hist!(c15_t_seek3_then_iterate, [Seek(3)], [], None);
// H: tier=thorough; unwind=34; sym=payload; history=[seek(2)]; asserts=iteration yields 2 and ends
hist!(c15_t_seek2_then_iterate, [Seek(2)], [2], None);
// H: tier=thorough; unwind=34; sym=payload; history=[iterate 2, seek(0)]; asserts=iteration yields 0,1,2
hist!(c15_t_iter2_seek0_then_iterate, [Iter(2), Seek(0)], [0, 1, 2], None);
// H: tier=thorough; unwind=34; sym=payload; history=[iterate 0 items]; asserts=a further iteration yields 0,1,2
hist!(c15_t_iter0_then_iterate, [Iter(0)], [0, 1, 2], None);
// H: tier=thorough; unwind=34; sym=payload; history=[nth(1), iterate 1]; asserts=a further iteration yields 1,2 or 0,1,2
hist!(c15_t_nth1_iter1_then_iterate, [Nth(1), Iter(1)], [1, 2], Some(&[0, 1, 2]));
// H: tier=thorough; unwind=34; sym=payload; history=[seek(1), iterate 1]; asserts=a further iteration yields 2 or 0,1,2
hist!(c15_t_seek1_iter1_then_iterate, [Seek(1), Iter(1)], [2], Some(&[0, 1, 2]));
// H: tier=thorough; unwind=34; sym=payload; history=[iterate 2]; asserts=a further iteration yields 2 or 0,1,2
hist!(c15_t_iter2_then_iterate, [Iter(2)], [2], Some(&[0, 1, 2]));

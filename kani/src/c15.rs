//! C15 — (harnesses not written yet)

//! C13 — truncated or failing sources give errors and only genuine shapes.
use crate::env::*;
use crate::model::*;
use crate::refcodec::*;
use shapefile::header::Header;
use shapefile::record::{ConcreteReadableShape, ReadableShape, WritableShape};
use shapefile::*;

/// A valid file image produced by the independent encoder: `n` records of type S with the
/// given structures and symbolic payload. Returns (length, record end offsets, models).
pub fn valid_image<S: TShape, const N: usize>(
    img: &mut [u8; N],
    idx: &mut [u8; N],
    specs: &[Spec],
) -> (usize, usize, [usize; MAXR], [Model; MAXR]) {
    let n = specs.len();
    let mut models = [Model::empty(S::CODE); MAXR];
    let mut ends = [0usize; MAXR];
    let mut p = 100;
    let mut q = 100;
    let mut i = 0;
    while i < n {
        let mut m = sym_spec(S::CODE, &specs[i]);
        m.with_m = may_have_m(S::CODE);
        // a conformant producer stores some box; the reader must hand it back as stored
        let mut c = 0;
        while c < 8 {
            m.bbox[c] = any_f64();
            c += 1;
        }
        let e = enc_record(&m, (i + 1) as i32, img, p);
        q = enc_index_entry(idx, q, p, e - p - 8);
        models[i] = m;
        ends[i] = e;
        p = e;
        i += 1;
    }
    let bbox = [0.0f64; 8];
    enc_header(img, p, S::CODE, &bbox);
    enc_header(idx, q, S::CODE, &bbox);
    (p, q, ends, models)
}

/// What the reader must report for a stored model (C01/C03 normalisation of measures).
pub fn assert_read_equals_stored<S: TShape>(stored: &Model, got: &Model) {
    assert!(stored.nparts == got.nparts && stored.nv == got.nv);
    let mut i = 0;
    while i < stored.nparts {
        assert!(stored.plen[i] == got.plen[i]);
        if S::CODE == T_MULTIPATCH {
            assert!(stored.pkind[i] == got.pkind[i]);
        }
        i += 1;
    }
    let m_rule = if !may_have_m(S::CODE) {
        0
    } else if S::MULTI {
        2
    } else {
        1
    };
    assert!(same_vertices(stored, got, has_z(S::CODE), m_rule));
    if S::MULTI {
        assert!(same_bbox(stored, got, 0, 4));
        if has_z(S::CODE) {
            assert!(same_bbox(stored, got, 4, 6));
        }
        if may_have_m(S::CODE) {
            assert!(same_bbox(stored, got, 6, 8));
        }
    }
}

/// (a) .shp truncated at a symbolic length t in 0..=L, no index.
pub fn truncated_shp<S: TShape, const N: usize>(specs: &[Spec]) {
    let mut img = [0u8; N];
    let mut idx = [0u8; N];
    let (len, _, ends, models) = valid_image::<S, N>(&mut img, &mut idx, specs);
    let t: usize = kani::any();
    kani::assume(t <= len);
    truncated_at::<S, N>(&img, specs.len(), len, &ends, &models, t);
    kani::cover!(specs.len() > 0 && t > 100 && t < ends[0], "cut inside the first record");
    kani::cover!(t == len, "not truncated");
}

/// Same, for multi-vertex records: every t in t_from..=t_to by a concrete loop (payload
/// symbolic). With a symbolic t the part and point counts come out of reads that may fail, and
/// counts taken out of a merged Ok/Err Result are not constants for CBMC (unbounded vertex loops).
pub fn truncated_shp_range<S: TShape, const N: usize>(specs: &[Spec], t_from: usize, t_to: usize) {
    let mut img = [0u8; N];
    let mut idx = [0u8; N];
    let (len, _, ends, models) = valid_image::<S, N>(&mut img, &mut idx, specs);
    let mut t = t_from;
    while t <= t_to && t <= len {
        truncated_at::<S, N>(&img, specs.len(), len, &ends, &models, t);
        t += 1;
    }
    kani::cover!(true, "range of truncation lengths explored");
}

fn truncated_at<S: TShape, const N: usize>(img: &[u8; N], n: usize, len: usize, ends: &[usize; MAXR], models: &[Model; MAXR], t: usize) {
    let _ = len;
    let mut rd = ShapeReader::new(MemSource::with_len(img, t));
    match &mut rd {
        Err(e) => {
            assert!(t < 100, "a file holding its complete header could not be opened");
            assert!(matches!(e, Error::IoError(_)), "truncated header reported as another error than I/O");
        }
        Ok(rd) => {
            assert!(t >= 100, "a file cut inside its header was opened");
            let mut it = rd.iter_shapes_as::<S>();
            let mut stop = false;
            let mut i = 0;
            while i < n && !stop {
                let item = it.next();
                if t >= ends[i] {
                    match &item {
                        Some(Ok(s)) => assert_read_equals_stored::<S>(&models[i], &s.extract()),
                        _ => assert!(false, "a record wholly inside the retained bytes was not returned"),
                    }
                } else {
                    match &item {
                        Some(Err(Error::IoError(_))) => {}
                        Some(Ok(_)) => assert!(false, "the reader invented a shape from a cut record"),
                        Some(Err(_)) => assert!(false, "the cut record was reported as another error than I/O"),
                        None => assert!(false, "the cut record was silently dropped"),
                    }
                    stop = true;
                }
                std::mem::forget(item);
                i += 1;
            }
            if !stop {
                let item = it.next();
                assert!(item.is_none());
                std::mem::forget(item);
            }
        }
    }
    std::mem::forget(rd);
}

const PT: Spec = spec(&[]);
const PL3: Spec = spec(&[3]);
const PL2: Spec = spec(&[2]);

// H: tier=quick; unwind=34; sym=truncation length t in 0..=156, payload of 2 Points; asserts=open fails (IoError) iff t<100; every record wholly inside t is returned equal to the stored one; the cut record is Some(Err(IoError)); never a panic or an invented shape
#[kani::proof]
#[kani::unwind(34)]
fn c13_q_trunc_shp_point_2() {
    truncated_shp::<Point, 160>(&[PT, PT]);
}
macro_rules! tr {
    ($name:ident, $T:ty, $N:expr, $specs:expr, $from:expr, $to:expr) => {
        #[kani::proof]
        #[kani::unwind(34)]
        fn $name() {
            truncated_shp_range::<$T, $N>(&$specs, $from, $to);
        }
    };
}
// H: tier=thorough; unwind=34; sym=payload of a Polyline [3] (file of 204 bytes: header 0..100, record header 100..108, type 108..112, box 112..144, counts 144..152, part array 152..156, points 156..204); truncation=every t in 0..=9 (concrete loop); asserts=as trunc_shp_point_2
tr!(c13_t_trunc_shp_polyline_3_t0_9, Polyline, 224, [PL3], 0, 9);
// H: tier=thorough; unwind=34; sym=payload of a Polyline [3] (file of 204 bytes: header 0..100, record header 100..108, type 108..112, box 112..144, counts 144..152, part array 152..156, points 156..204); truncation=every t in 10..=19 (concrete loop); asserts=as trunc_shp_point_2
tr!(c13_t_trunc_shp_polyline_3_t10_19, Polyline, 224, [PL3], 10, 19);
// H: tier=thorough; unwind=34; sym=payload of a Polyline [3] (file of 204 bytes: header 0..100, record header 100..108, type 108..112, box 112..144, counts 144..152, part array 152..156, points 156..204); truncation=every t in 20..=29 (concrete loop); asserts=as trunc_shp_point_2
tr!(c13_t_trunc_shp_polyline_3_t20_29, Polyline, 224, [PL3], 20, 29);
// H: tier=thorough; unwind=34; sym=payload of a Polyline [3] (file of 204 bytes: header 0..100, record header 100..108, type 108..112, box 112..144, counts 144..152, part array 152..156, points 156..204); truncation=every t in 30..=39 (concrete loop); asserts=as trunc_shp_point_2
tr!(c13_t_trunc_shp_polyline_3_t30_39, Polyline, 224, [PL3], 30, 39);
// H: tier=thorough; unwind=34; sym=payload of a Polyline [3] (file of 204 bytes: header 0..100, record header 100..108, type 108..112, box 112..144, counts 144..152, part array 152..156, points 156..204); truncation=every t in 40..=49 (concrete loop); asserts=as trunc_shp_point_2
tr!(c13_t_trunc_shp_polyline_3_t40_49, Polyline, 224, [PL3], 40, 49);
// H: tier=thorough; unwind=34; sym=payload of a Polyline [3] (file of 204 bytes: header 0..100, record header 100..108, type 108..112, box 112..144, counts 144..152, part array 152..156, points 156..204); truncation=every t in 50..=59 (concrete loop); asserts=as trunc_shp_point_2
tr!(c13_t_trunc_shp_polyline_3_t50_59, Polyline, 224, [PL3], 50, 59);
// H: tier=thorough; unwind=34; sym=payload of a Polyline [3] (file of 204 bytes: header 0..100, record header 100..108, type 108..112, box 112..144, counts 144..152, part array 152..156, points 156..204); truncation=every t in 60..=69 (concrete loop); asserts=as trunc_shp_point_2
tr!(c13_t_trunc_shp_polyline_3_t60_69, Polyline, 224, [PL3], 60, 69);
// H: tier=thorough; unwind=34; sym=payload of a Polyline [3] (file of 204 bytes: header 0..100, record header 100..108, type 108..112, box 112..144, counts 144..152, part array 152..156, points 156..204); truncation=every t in 70..=79 (concrete loop); asserts=as trunc_shp_point_2
tr!(c13_t_trunc_shp_polyline_3_t70_79, Polyline, 224, [PL3], 70, 79);
// H: tier=thorough; unwind=34; sym=payload of a Polyline [3] (file of 204 bytes: header 0..100, record header 100..108, type 108..112, box 112..144, counts 144..152, part array 152..156, points 156..204); truncation=every t in 80..=89 (concrete loop); asserts=as trunc_shp_point_2
tr!(c13_t_trunc_shp_polyline_3_t80_89, Polyline, 224, [PL3], 80, 89);
// H: tier=thorough; unwind=34; sym=payload of a Polyline [3] (file of 204 bytes: header 0..100, record header 100..108, type 108..112, box 112..144, counts 144..152, part array 152..156, points 156..204); truncation=every t in 90..=99 (concrete loop); asserts=as trunc_shp_point_2
tr!(c13_t_trunc_shp_polyline_3_t90_99, Polyline, 224, [PL3], 90, 99);
// H: tier=quick; unwind=34; sym=payload of a Polyline [3] (file of 204 bytes: header 0..100, record header 100..108, type 108..112, box 112..144, counts 144..152, part array 152..156, points 156..204); truncation=every t in 100..=109 (concrete loop); asserts=as trunc_shp_point_2
tr!(c13_q_trunc_shp_polyline_3_t100_109, Polyline, 224, [PL3], 100, 109);
// H: tier=thorough; unwind=34; sym=payload of a Polyline [3] (file of 204 bytes: header 0..100, record header 100..108, type 108..112, box 112..144, counts 144..152, part array 152..156, points 156..204); truncation=every t in 110..=119 (concrete loop); asserts=as trunc_shp_point_2
tr!(c13_t_trunc_shp_polyline_3_t110_119, Polyline, 224, [PL3], 110, 119);
// H: tier=thorough; unwind=34; sym=payload of a Polyline [3] (file of 204 bytes: header 0..100, record header 100..108, type 108..112, box 112..144, counts 144..152, part array 152..156, points 156..204); truncation=every t in 120..=129 (concrete loop); asserts=as trunc_shp_point_2
tr!(c13_t_trunc_shp_polyline_3_t120_129, Polyline, 224, [PL3], 120, 129);
// H: tier=thorough; unwind=34; sym=payload of a Polyline [3] (file of 204 bytes: header 0..100, record header 100..108, type 108..112, box 112..144, counts 144..152, part array 152..156, points 156..204); truncation=every t in 130..=139 (concrete loop); asserts=as trunc_shp_point_2
tr!(c13_t_trunc_shp_polyline_3_t130_139, Polyline, 224, [PL3], 130, 139);
// H: tier=quick; unwind=34; sym=payload of a Polyline [3] (file of 204 bytes: header 0..100, record header 100..108, type 108..112, box 112..144, counts 144..152, part array 152..156, points 156..204); truncation=every t in 140..=149 (concrete loop); asserts=as trunc_shp_point_2
tr!(c13_q_trunc_shp_polyline_3_t140_149, Polyline, 224, [PL3], 140, 149);
// H: tier=quick; unwind=34; sym=payload of a Polyline [3] (file of 204 bytes: header 0..100, record header 100..108, type 108..112, box 112..144, counts 144..152, part array 152..156, points 156..204); truncation=every t in 150..=159 (concrete loop); asserts=as trunc_shp_point_2
tr!(c13_q_trunc_shp_polyline_3_t150_159, Polyline, 224, [PL3], 150, 159);
// H: tier=thorough; unwind=34; sym=payload of a Polyline [3] (file of 204 bytes: header 0..100, record header 100..108, type 108..112, box 112..144, counts 144..152, part array 152..156, points 156..204); truncation=every t in 160..=169 (concrete loop); asserts=as trunc_shp_point_2
tr!(c13_t_trunc_shp_polyline_3_t160_169, Polyline, 224, [PL3], 160, 169);
// H: tier=thorough; unwind=34; sym=payload of a Polyline [3] (file of 204 bytes: header 0..100, record header 100..108, type 108..112, box 112..144, counts 144..152, part array 152..156, points 156..204); truncation=every t in 170..=179 (concrete loop); asserts=as trunc_shp_point_2
tr!(c13_t_trunc_shp_polyline_3_t170_179, Polyline, 224, [PL3], 170, 179);
// H: tier=thorough; unwind=34; sym=payload of a Polyline [3] (file of 204 bytes: header 0..100, record header 100..108, type 108..112, box 112..144, counts 144..152, part array 152..156, points 156..204); truncation=every t in 180..=189 (concrete loop); asserts=as trunc_shp_point_2
tr!(c13_t_trunc_shp_polyline_3_t180_189, Polyline, 224, [PL3], 180, 189);
// H: tier=thorough; unwind=34; sym=payload of a Polyline [3] (file of 204 bytes: header 0..100, record header 100..108, type 108..112, box 112..144, counts 144..152, part array 152..156, points 156..204); truncation=every t in 190..=199 (concrete loop); asserts=as trunc_shp_point_2
tr!(c13_t_trunc_shp_polyline_3_t190_199, Polyline, 224, [PL3], 190, 199);
// H: tier=thorough; unwind=34; sym=payload of a Polyline [3] (file of 204 bytes: header 0..100, record header 100..108, type 108..112, box 112..144, counts 144..152, part array 152..156, points 156..204); truncation=every t in 200..=204 (concrete loop); asserts=as trunc_shp_point_2
tr!(c13_t_trunc_shp_polyline_3_t200_204, Polyline, 224, [PL3], 200, 204);
// H: tier=quick; unwind=34; sym=payload of a PolylineM [2] (220 bytes: ..., M range 188..204, M array 204..220); truncation=every t in 200..=212 (inside the M range and the M array); asserts=the cut record is Some(Err(IoError)): a cut inside the optional M block is not mistaken for "no M block" and no measure is invented
tr!(c13_q_trunc_shp_polylinem_2_t200_212, PolylineM, 256, [PL2], 200, 212);
// H: tier=thorough; unwind=34; sym=truncation length t (symbolic), payload of 2 PointZ; asserts=as trunc_shp_point_2
#[kani::proof]
#[kani::unwind(34)]
fn c13_t_trunc_shp_pointz_2() {
    truncated_shp::<PointZ, 192>(&[PT, PT]);
}
// H: tier=thorough; unwind=34; sym=payload of PolylineZ [2] (252 bytes; Z block 188..220, M block 220..252); truncation=every t in 148..=157; asserts=as above
tr!(c13_t_trunc_shp_polylinez_2_t148_157, PolylineZ, 288, [PL2], 148, 157);
// H: tier=thorough; unwind=34; sym=payload of PolylineZ [2] (252 bytes; Z block 188..220, M block 220..252); truncation=every t in 200..=209; asserts=as above
tr!(c13_t_trunc_shp_polylinez_2_t200_209, PolylineZ, 288, [PL2], 200, 209);
// H: tier=thorough; unwind=34; sym=payload of PolylineZ [2] (252 bytes; Z block 188..220, M block 220..252); truncation=every t in 210..=219; asserts=as above
tr!(c13_t_trunc_shp_polylinez_2_t210_219, PolylineZ, 288, [PL2], 210, 219);
// H: tier=thorough; unwind=34; sym=payload of PolylineZ [2] (252 bytes; Z block 188..220, M block 220..252); truncation=every t in 243..=252; asserts=as above
tr!(c13_t_trunc_shp_polylinez_2_t243_252, PolylineZ, 288, [PL2], 243, 252);
// H: tier=thorough; unwind=34; sym=payload of MultipointM 2 points then 1 point (first record ends at 188); truncation=every t in 176..=185 (across the record boundary); asserts=as above
tr!(c13_t_trunc_shp_multipointm_2_1_t176_185, MultipointM, 320, [PL2, spec(&[1])], 176, 185);
// H: tier=thorough; unwind=34; sym=payload of MultipointM 2 points then 1 point (first record ends at 188); truncation=every t in 186..=195 (across the record boundary); asserts=as above
tr!(c13_t_trunc_shp_multipointm_2_1_t186_195, MultipointM, 320, [PL2, spec(&[1])], 186, 195);

/// .shx truncated at a symbolic length t >= 100 (complete header; entries cut), .shp intact.
pub fn truncated_shx<S: TShape, const N: usize>(specs: &[Spec]) {
    let n = specs.len();
    let mut img = [0u8; N];
    let mut idx = [0u8; N];
    let (len, xlen, _, models) = valid_image::<S, N>(&mut img, &mut idx, specs);
    let t: usize = kani::any();
    kani::assume(t >= 100 && t <= xlen);
    let mut xs = MemSource::with_len(&idx, t);
    xs.sure = 100;
    let mut rd = ShapeReader::with_shx(MemSource::with_len(&img, len), xs);
    match &mut rd {
        Err(e) => {
            assert!(t < xlen, "a complete index was refused");
            assert!(matches!(e, Error::IoError(_)));
        }
        Ok(rd) => {
            assert!(t == xlen, "an index whose entries are cut was accepted");
            let mut i = 0;
            while i < n {
                let item = rd.read_nth_shape_as::<S>(i);
                match &item {
                    Some(Ok(s)) => assert_read_equals_stored::<S>(&models[i], &s.extract()),
                    _ => assert!(false),
                }
                std::mem::forget(item);
                i += 1;
            }
        }
    }
    std::mem::forget(rd);
    kani::cover!(t == xlen);
    kani::cover!(t > 100 && t < xlen);
}
// H: tier=quick; unwind=34; sym=index truncation length t in 100..=116, payload of 2 Points; asserts=with_shx fails with IoError iff an entry is cut; the complete index gives both shapes by random access
#[kani::proof]
#[kani::unwind(34)]
fn c13_q_trunc_shx_point_2() {
    truncated_shx::<Point, 160>(&[PT, PT]);
}

// H: tier=quick; unwind=34; sym=all 100 header bytes' box part and truncation length t in 0..100; asserts=Header::read_from (first thing both open routes do, for .shp and .shx) returns Err(IoError) for every t<100 and Ok at t=100
#[kani::proof]
#[kani::unwind(34)]
fn c13_q_trunc_header() {
    let mut img = [0u8; 100];
    let mut bbox = [0.0f64; 8];
    let mut i = 0;
    while i < 8 {
        bbox[i] = any_f64();
        i += 1;
    }
    enc_header(&mut img, 100, T_POLYLINE, &bbox);
    let t: usize = kani::any();
    kani::assume(t <= 100);
    let mut src = MemSource::with_len(&img, t);
    let r = Header::read_from(&mut src);
    match &r {
        Ok(h) => {
            assert!(t == 100);
            assert!(h.file_length == 50 && h.shape_type as i32 == T_POLYLINE);
            assert!(beq(h.bbox.min.x, bbox[0]) && beq(h.bbox.min.y, bbox[1]) && beq(h.bbox.max.x, bbox[2]) && beq(h.bbox.max.y, bbox[3]));
            assert!(beq(h.bbox.min.z, bbox[4]) && beq(h.bbox.max.z, bbox[5]) && beq(h.bbox.min.m, bbox[6]) && beq(h.bbox.max.m, bbox[7]));
        }
        Err(Error::IoError(_)) => assert!(t < 100),
        Err(_) => assert!(false),
    }
    kani::cover!(r.is_ok());
    kani::cover!(r.is_err());
    std::mem::forget(r);
}

/// (b) a source that fails at its k-th operation: the call in progress returns that error.
/// Decided in three layers, because a symbolic failure point that survives across reader calls
/// leaves every later reader field inside a Result whose Ok/Err alternatives were merged, which
/// CBMC cannot fold (no result in 900 s / 10 GB for `next()` after a faulting call):
///  (b1) open: k symbolic over every read of `ShapeReader::new`;
///  (b2) record decoding: k symbolic over every read of `S::read_from` (the only reads an
///       iteration step or a random access performs besides the two of the record header);
///  (b3) seeks: `read_nth_shape_as` with its first / second seek failing (concrete choice),
///       payload symbolic; plus (a) above: a read that hits the end of the source at ANY byte of
///       the traversal is returned by the iterator as Some(Err(IoError)).
pub fn failing_open<const N: usize>() {
    let mut img = [0u8; N];
    let mut bbox = [0.0f64; 8];
    let mut i = 0;
    while i < 8 {
        bbox[i] = any_f64();
        i += 1;
    }
    enc_header(&mut img, N, T_POLYLINEZ, &bbox);
    let k: u32 = kani::any();
    kani::assume(k <= 20);
    faults_reset();
    let rd = ShapeReader::new(FaultSource::new(&img[..N], k, false));
    if faults_fired() > 0 {
        assert!(matches!(rd, Err(Error::IoError(_))), "a source failure while opening was swallowed");
    } else {
        assert!(rd.is_ok(), "open failed although the source did not");
    }
    kani::cover!(faults_fired() > 0);
    kani::cover!(faults_fired() == 0);
    std::mem::forget(rd);
}
// H: tier=quick; unwind=34; sym=k (failing read, 0..=20), header box; call=ShapeReader::new; asserts=Err(IoError) iff the source failed during open
#[kani::proof]
#[kani::unwind(34)]
fn c13_q_failing_source_open() {
    failing_open::<128>();
}

/// Every failing read index k in k_from..=k_to is tried by a concrete loop (payload symbolic):
/// counts are read through `?` from reads that may fail, and a count taken out of a merged
/// Ok/Err Result is not a constant for CBMC, which would make the vertex loops unbounded if k
/// were a solver variable. `k_to` beyond the number of reads = no failure at all.
pub fn failing_record<S: TShape, const N: usize>(sp: &Spec, k_from: u32, k_to: u32) {
    let mut img = [0u8; N];
    let mut m = sym_spec(S::CODE, sp);
    m.with_m = may_have_m(S::CODE);
    let mut c = 0;
    while c < 8 {
        m.bbox[c] = any_f64();
        c += 1;
    }
    let e = enc_content(&m, &mut img, 0);
    let mut k = k_from;
    while k <= k_to {
        failing_record_at::<S, N>(&img, e, &m, k, k_to);
        k += 1;
    }
}

fn failing_record_at<S: TShape, const N: usize>(img: &[u8; N], e: usize, m: &Model, k: u32, max_ops: u32) {
    let m = *m;
    faults_reset();
    let mut src = FaultSource::new(&img[..e], k, false);
    let r = S::read_from(&mut src, e as i32);
    if src.fired {
        assert!(matches!(r, Err(Error::IoError(_))), "a source failure while decoding a record was swallowed");
    } else {
        match &r {
            Ok(s) => assert_read_equals_stored::<S>(&m, &s.extract()),
            Err(_) => assert!(false, "decoding failed although the source did not"),
        }
        let _ = max_ops;
    }
    kani::cover!(true, "decoding attempted with this failure point");
    std::mem::forget(r);
}
macro_rules! fr {
    ($name:ident, $T:ty, $N:expr, $sp:expr, $from:expr, $to:expr) => {
        #[kani::proof]
        #[kani::unwind(34)]
        fn $name() {
            failing_record::<$T, $N>(&$sp, $from, $to);
        }
    };
}
// H: tier=quick; unwind=34; sym=payload; fault=every failing read k in 0..=8 (concrete loop; 5 reads + none); call=PointZ::read_from; asserts=Err(IoError) iff a read failed, else the stored shape
fr!(c13_q_failing_record_pointz, PointZ, 64, PT, 0, 8);
// H: tier=quick; unwind=34; sym=payload; fault=every k in 0..=12; call=Polyline::read_from of a [3] record (type, box, counts, part array, points); asserts=as above
fr!(c13_q_failing_record_polyline_3_a, Polyline, 128, PL3, 0, 12);
// H: tier=quick; unwind=34; sym=payload; fault=every k in 13..=24 (24 = beyond the last read: no failure); call=Polyline::read_from of a [3] record; asserts=as above
fr!(c13_q_failing_record_polyline_3_b, Polyline, 128, PL3, 13, 24);
// H: tier=thorough; unwind=34; sym=payload; fault=every k in 0..=12; call=PolylineZ::read_from of a [2] record; asserts=as above
fr!(c13_t_failing_record_polylinez_2_a, PolylineZ, 192, PL2, 0, 12);
// H: tier=thorough; unwind=34; sym=payload; fault=every k in 13..=24; call=PolylineZ::read_from of a [2] record (Z range/array, M range/array); asserts=as above
fr!(c13_t_failing_record_polylinez_2_b, PolylineZ, 192, PL2, 13, 24);
// H: tier=thorough; unwind=34; sym=payload; fault=every k in 0..=16; call=MultipointM::read_from of 2 points; asserts=as above
fr!(c13_t_failing_record_multipointm_2, MultipointM, 160, PL2, 0, 16);
// H: tier=thorough; unwind=34; sym=payload; fault=every k in 0..=14; call=Multipatch::read_from of a strip of 3; asserts=as above
fr!(c13_t_failing_record_multipatch_3_a, Multipatch, 256, spec_k(&[3], &[0], &[], &[]), 0, 14);
// H: tier=thorough; unwind=34; sym=payload; fault=every k in 15..=30; call=Multipatch::read_from of a strip of 3; asserts=as above
fr!(c13_t_failing_record_multipatch_3_b, Multipatch, 256, spec_k(&[3], &[0], &[], &[]), 15, 30);

/// (b3) random access with a failing seek.
pub fn failing_seek<const N: usize>(which_seek: u32) {
    let mut img = [0u8; N];
    let mut idx = [0u8; N];
    let (len, xlen, _, _models) = valid_image::<Point, N>(&mut img, &mut idx, &[PT, PT]);
    faults_reset();
    let mut src = FaultSource::new(&img[..len], u32::MAX, false);
    src.fail_seek_no = which_seek;
    let mut rd = ShapeReader::with_shx(src, MemSource::with_len(&idx, xlen));
    match &mut rd {
        Ok(rd) => {
            let item = rd.read_nth_shape_as::<Point>(1);
            assert!(faults_fired() == 1);
            assert!(matches!(item, Some(Err(Error::IoError(_)))), "a failing seek during random access was swallowed");
            std::mem::forget(item);
        }
        Err(_) => assert!(false),
    }
    std::mem::forget(rd);
    kani::cover!(true, "seek failed");
}
// H: tier=quick; unwind=34; sym=payload of 2 Points; fault=the seek to the record fails; call=read_nth_shape_as(1); asserts=Some(Err(IoError))
#[kani::proof]
#[kani::unwind(34)]
fn c13_q_failing_seek_to_record() {
    failing_seek::<160>(0);
}
// H: tier=quick; unwind=34; sym=payload of 2 Points; fault=the seek back to the first record fails after a successful read; call=read_nth_shape_as(1); asserts=Some(Err(IoError)), not the shape
#[kani::proof]
#[kani::unwind(34)]
fn c13_q_failing_seek_back() {
    failing_seek::<160>(1);
}

/// (c) short reads: every read() hands out fewer bytes than asked (three uniform policies).
pub fn short_reads<S: TShape, const N: usize>(specs: &[Spec], policy: u8) {
    let n = specs.len();
    let mut img = [0u8; N];
    let mut idx = [0u8; N];
    let (len, _, _, models) = valid_image::<S, N>(&mut img, &mut idx, specs);
    let mut src = FaultSource::new(&img[..len], u32::MAX, true);
    src.short_policy = policy;
    let mut rd = ShapeReader::new(src);
    match &mut rd {
        Ok(rd) => {
            let mut it = rd.iter_shapes_as::<S>();
            let mut i = 0;
            while i < n {
                let item = it.next();
                match &item {
                    Some(Ok(s)) => assert_read_equals_stored::<S>(&models[i], &s.extract()),
                    _ => assert!(false, "short reads changed what the reader returns"),
                }
                std::mem::forget(item);
                i += 1;
            }
            let item = it.next();
            assert!(item.is_none());
            std::mem::forget(item);
        }
        Err(_) => assert!(false),
    }
    std::mem::forget(rd);
    kani::cover!(true, "all shapes read through short reads");
}
// H: tier=quick; unwind=34; sym=payload of 2 PointM; schedule=every read() returns 1 byte; asserts=same shapes as stored
#[kani::proof]
#[kani::unwind(34)]
fn c13_q_short_reads_1byte_pointm_2() {
    short_reads::<PointM, 192>(&[PT, PT], 1);
}
// H: tier=quick; unwind=34; sym=payload of Polyline [2]; schedule=every read() returns all but one byte; asserts=same shapes as stored
#[kani::proof]
#[kani::unwind(34)]
fn c13_q_short_reads_allbut1_polyline_2() {
    short_reads::<Polyline, 192>(&[PL2], 2);
}
// H: tier=thorough; unwind=34; sym=payload of PolylineZ [2]; schedule=every read() returns half; asserts=same shapes as stored
#[kani::proof]
#[kani::unwind(34)]
fn c13_t_short_reads_half_polylinez_2() {
    short_reads::<PolylineZ, 288>(&[PL2], 3);
}

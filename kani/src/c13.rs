//! C13 — (harnesses not written yet)

//! C09 — (harnesses not written yet)

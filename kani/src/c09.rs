//! C09 — any interleaving of writes and finalize calls yields the same files as drop.
use crate::env::*;
use crate::model::*;
use crate::refcodec::*;
use shapefile::record::{ConcreteReadableShape, ReadableShape, WritableShape};
use shapefile::*;

/// One history of `L` operations over {0: write a, 1: write b, 2: finalize}, run with both
/// endings (drop | finalize then drop); shape payloads symbolic. (Enumerating many histories
/// inside one harness makes CBMC's symbolic execution slow down quadratically, and symbolic
/// operation choices cost more than the sum of the concrete histories; so: one harness per
/// history, all histories up to the bound generated below.)
/// Oracle: a second writer fed only the writes, then dropped.
pub fn history<S: TShape, const N: usize, const L: usize>(sa: &Spec, sb: &Spec, with_shx: bool, ops: [u8; L]) {
    let ma = sym_spec(S::CODE, sa);
    let mb = sym_spec(S::CODE, sb);
    let a = S::build(&ma);
    let b = S::build(&mb);
    one_history::<S, N, L>(&a, &b, &ops, false, with_shx);
    one_history::<S, N, L>(&a, &b, &ops, true, with_shx);
    kani::cover!(true, "history explored with both endings");
}

fn one_history<S: TShape, const N: usize, const L: usize>(a: &S, b: &S, ops: &[u8; L], end_finalize: bool, with_shx: bool) {
    let rec = 8 + 4; // record header + type code; content sizes come from the shapes
    let size_a = rec + a.size_in_bytes();
    let size_b = rec + b.size_in_bytes();
    let mut shp = MemFile::<N>::new();
    let mut shx = MemFile::<N>::new();
    // expected effective finalizes (specification: a finalize commits iff something was
    // written since the last successful finalize, or nothing was ever committed)
    let mut exp_len = [0usize; 8];
    let mut exp_writes = [0usize; 8];
    let mut eff = 0usize;
    {
        let mut w = if with_shx {
            ShapeWriter::with_shx(&mut shp, &mut shx)
        } else {
            ShapeWriter::new(&mut shp)
        };
        let mut dirty = true;
        let mut writes = 0usize;
        let mut len = 0usize;
        let mut k = 0;
        while k < L + 2 {
            // L operations of the history, then the optional explicit finalize, then drop
            let op = if k < L { ops[k] } else if k == L { if end_finalize { 2 } else { 3 } } else { 2 };
            if op == 2 {
                if k < L + 1 {
                    let r = w.finalize();
                    assert!(r.is_ok());
                    std::mem::forget(r);
                }
                if dirty {
                    if len == 0 {
                        len = 100;
                    }
                    exp_len[eff] = len;
                    exp_writes[eff] = writes;
                    eff += 1;
                    dirty = false;
                }
            } else if op < 2 {
                let r = if op == 0 { w.write_shape(a) } else { w.write_shape(b) };
                assert!(r.is_ok());
                std::mem::forget(r);
                if len == 0 {
                    len = 100;
                }
                len += if op == 0 { size_a } else { size_b };
                writes += 1;
                dirty = true;
            }
            k += 1;
        }
    }
    // every effective finalize flushed both files once, with consistent committed lengths and the
    // destination repositioned at its end; finalizes with nothing new did no seek / flush at all
    assert!(shp.n_flush as usize == eff, ".shp flush count differs from the number of effective finalizes");
    let mut e = 0;
    while e < eff {
        let (l, h, p) = shp.flog[e];
        assert!(l == exp_len[e], ".shp length at finalize differs from header + records written so far");
        assert!(h as usize * 2 == l, "header length field at finalize differs from the file length");
        assert!(p == l, ".shp not repositioned at its end after finalize");
        e += 1;
    }
    if with_shx {
        assert!(shx.n_flush as usize == eff);
        let mut e = 0;
        while e < eff {
            let (l, h, p) = shx.flog[e];
            assert!(h as usize == 50 + 4 * exp_writes[e], ".shx header at finalize does not count the shapes written so far");
            assert!(exp_writes[e] == 0 || l == 100 + 8 * exp_writes[e], ".shx length at finalize");
            assert!(p == l);
            e += 1;
        }
    }
    // reference: same writes, no finalize, drop
    let mut rshp = MemFile::<N>::new();
    let mut rshx = MemFile::<N>::new();
    {
        let mut w = if with_shx {
            ShapeWriter::with_shx(&mut rshp, &mut rshx)
        } else {
            ShapeWriter::new(&mut rshp)
        };
        let mut k = 0;
        while k < L {
            if ops[k] != 2 {
                let r = if ops[k] == 0 { w.write_shape(a) } else { w.write_shape(b) };
                assert!(r.is_ok());
                std::mem::forget(r);
            }
            k += 1;
        }
    }
    // no I/O beyond the writes and the effective finalizes: the reference run holds the same writes and
    // one effective finalize (at drop); a writer that is only created and dropped gives the cost of one
    // effective finalize; a finalize with nothing new to commit must add nothing to any counter
    let mut eshp = MemFile::<N>::new();
    let mut eshx = MemFile::<N>::new();
    {
        let _w = if with_shx {
            ShapeWriter::with_shx(&mut eshp, &mut eshx)
        } else {
            ShapeWriter::new(&mut eshp)
        };
    }
    assert!(eff >= 1);
    assert!(shp.ops() == rshp.ops() + (eff as u32 - 1) * eshp.ops(), "I/O on the .shp beyond the writes and the effective finalizes (a finalize with nothing new to commit must do none)");
    if with_shx {
        assert!(shx.ops() == rshx.ops() + (eff as u32 - 1) * eshx.ops(), "I/O on the .shx beyond the writes and the effective finalizes");
    }
    assert!(same_image(&shp, &rshp), ".shp differs from the one produced by the same writes and a plain drop");
    if with_shx {
        assert!(same_image(&shx, &rshx), ".shx differs from the one produced by the same writes and a plain drop");
    }
}

const PT: Spec = spec(&[]);
const PL2: Spec = spec(&[2]);
const PL3: Spec = spec(&[3]);

macro_rules! hist {
    ($name:ident, $T:ty, $N:expr, $L:expr, $a:expr, $b:expr, $shx:expr, $ops:expr) => {
        #[kani::proof]
        #[kani::unwind(60)]
        fn $name() {
            history::<$T, $N, $L>(&$a, &$b, $shx, $ops);
        }
    };
}
// H: tier=quick; unwind=60; sym=payload of shapes a,b (2 f64 each); history=[write a, write a] x {drop, finalize+drop}; shx=True; asserts=final images identical to writes-only+drop; each effective finalize flushes once, repositions at the end and commits the right lengths (.shp length field, .shx 50+4k); finalize with nothing new does no seek/flush
hist!(c09_q_point_shx_aa, Point, 320, 2, PT, PT, true, [0, 0]);
// H: tier=quick; unwind=60; sym=payload of shapes a,b (2 f64 each); history=[write a, write b] x {drop, finalize+drop}; shx=True; asserts=final images identical to writes-only+drop; each effective finalize flushes once, repositions at the end and commits the right lengths (.shp length field, .shx 50+4k); finalize with nothing new does no seek/flush
hist!(c09_q_point_shx_ab, Point, 320, 2, PT, PT, true, [0, 1]);
// H: tier=quick; unwind=60; sym=payload of shapes a,b (2 f64 each); history=[write a, finalize] x {drop, finalize+drop}; shx=True; asserts=final images identical to writes-only+drop; each effective finalize flushes once, repositions at the end and commits the right lengths (.shp length field, .shx 50+4k); finalize with nothing new does no seek/flush
hist!(c09_q_point_shx_af, Point, 320, 2, PT, PT, true, [0, 2]);
// H: tier=quick; unwind=60; sym=payload of shapes a,b (2 f64 each); history=[finalize, write a] x {drop, finalize+drop}; shx=True; asserts=final images identical to writes-only+drop; each effective finalize flushes once, repositions at the end and commits the right lengths (.shp length field, .shx 50+4k); finalize with nothing new does no seek/flush
hist!(c09_q_point_shx_fa, Point, 320, 2, PT, PT, true, [2, 0]);
// H: tier=quick; unwind=60; sym=payload of shapes a,b (2 f64 each); history=[finalize, write b] x {drop, finalize+drop}; shx=True; asserts=final images identical to writes-only+drop; each effective finalize flushes once, repositions at the end and commits the right lengths (.shp length field, .shx 50+4k); finalize with nothing new does no seek/flush
hist!(c09_q_point_shx_fb, Point, 320, 2, PT, PT, true, [2, 1]);
// H: tier=quick; unwind=60; sym=payload of shapes a,b (2 f64 each); history=[finalize, finalize] x {drop, finalize+drop}; shx=True; asserts=final images identical to writes-only+drop; each effective finalize flushes once, repositions at the end and commits the right lengths (.shp length field, .shx 50+4k); finalize with nothing new does no seek/flush
hist!(c09_q_point_shx_ff, Point, 320, 2, PT, PT, true, [2, 2]);
// H: tier=quick; unwind=60; sym=payload of shapes a,b (4 f64 each; Z/M ranges in the header); history=[finalize, write a, finalize] x {drop, finalize+drop}; shx=True; asserts=final images identical to writes-only+drop; each effective finalize flushes once, repositions at the end and commits the right lengths (.shp length field, .shx 50+4k); finalize with nothing new does no seek/flush
hist!(c09_q_pointz_shx_faf, PointZ, 384, 3, PT, PT, true, [2, 0, 2]);
// H: tier=quick; unwind=60; sym=payload of shapes a,b (4 f64 each; Z/M ranges in the header); history=[write a, finalize, write b] x {drop, finalize+drop}; shx=True; asserts=final images identical to writes-only+drop; each effective finalize flushes once, repositions at the end and commits the right lengths (.shp length field, .shx 50+4k); finalize with nothing new does no seek/flush
hist!(c09_q_pointz_shx_afb, PointZ, 384, 3, PT, PT, true, [0, 2, 1]);
// H: tier=quick; unwind=60; sym=payload of shapes a,b (4 f64 each; Z/M ranges in the header); history=[finalize, finalize, write a] x {drop, finalize+drop}; shx=True; asserts=final images identical to writes-only+drop; each effective finalize flushes once, repositions at the end and commits the right lengths (.shp length field, .shx 50+4k); finalize with nothing new does no seek/flush
hist!(c09_q_pointz_shx_ffa, PointZ, 384, 3, PT, PT, true, [2, 2, 0]);
// H: tier=quick; unwind=60; sym=payload of shapes a,b (2 f64 each); history=[finalize, write a, write b] x {drop, finalize+drop}; shx=False; asserts=final images identical to writes-only+drop; each effective finalize flushes once, repositions at the end and commits the right lengths (.shp length field, .shx 50+4k); finalize with nothing new does no seek/flush
hist!(c09_q_point_noshx_fab, Point, 320, 3, PT, PT, false, [2, 0, 1]);
// H: tier=thorough; unwind=60; sym=payload of shapes a,b (2 f64 each); history=[write a, write a, write a] x {drop, finalize+drop}; shx=True; asserts=final images identical to writes-only+drop; each effective finalize flushes once, repositions at the end and commits the right lengths (.shp length field, .shx 50+4k); finalize with nothing new does no seek/flush
hist!(c09_t_point_shx_aaa, Point, 352, 3, PT, PT, true, [0, 0, 0]);
// H: tier=thorough; unwind=60; sym=payload of shapes a,b (2 f64 each); history=[write a, write a, write b] x {drop, finalize+drop}; shx=True; asserts=final images identical to writes-only+drop; each effective finalize flushes once, repositions at the end and commits the right lengths (.shp length field, .shx 50+4k); finalize with nothing new does no seek/flush
hist!(c09_t_point_shx_aab, Point, 352, 3, PT, PT, true, [0, 0, 1]);
// H: tier=thorough; unwind=60; sym=payload of shapes a,b (2 f64 each); history=[write a, write a, finalize] x {drop, finalize+drop}; shx=True; asserts=final images identical to writes-only+drop; each effective finalize flushes once, repositions at the end and commits the right lengths (.shp length field, .shx 50+4k); finalize with nothing new does no seek/flush
hist!(c09_t_point_shx_aaf, Point, 352, 3, PT, PT, true, [0, 0, 2]);
// H: tier=thorough; unwind=60; sym=payload of shapes a,b (2 f64 each); history=[write a, write b, write a] x {drop, finalize+drop}; shx=True; asserts=final images identical to writes-only+drop; each effective finalize flushes once, repositions at the end and commits the right lengths (.shp length field, .shx 50+4k); finalize with nothing new does no seek/flush
hist!(c09_t_point_shx_aba, Point, 352, 3, PT, PT, true, [0, 1, 0]);
// H: tier=thorough; unwind=60; sym=payload of shapes a,b (2 f64 each); history=[write a, write b, write b] x {drop, finalize+drop}; shx=True; asserts=final images identical to writes-only+drop; each effective finalize flushes once, repositions at the end and commits the right lengths (.shp length field, .shx 50+4k); finalize with nothing new does no seek/flush
hist!(c09_t_point_shx_abb, Point, 352, 3, PT, PT, true, [0, 1, 1]);
// H: tier=thorough; unwind=60; sym=payload of shapes a,b (2 f64 each); history=[write a, write b, finalize] x {drop, finalize+drop}; shx=True; asserts=final images identical to writes-only+drop; each effective finalize flushes once, repositions at the end and commits the right lengths (.shp length field, .shx 50+4k); finalize with nothing new does no seek/flush
hist!(c09_t_point_shx_abf, Point, 352, 3, PT, PT, true, [0, 1, 2]);
// H: tier=thorough; unwind=60; sym=payload of shapes a,b (2 f64 each); history=[write a, finalize, write a] x {drop, finalize+drop}; shx=True; asserts=final images identical to writes-only+drop; each effective finalize flushes once, repositions at the end and commits the right lengths (.shp length field, .shx 50+4k); finalize with nothing new does no seek/flush
hist!(c09_t_point_shx_afa, Point, 352, 3, PT, PT, true, [0, 2, 0]);
// H: tier=thorough; unwind=60; sym=payload of shapes a,b (2 f64 each); history=[write a, finalize, write b] x {drop, finalize+drop}; shx=True; asserts=final images identical to writes-only+drop; each effective finalize flushes once, repositions at the end and commits the right lengths (.shp length field, .shx 50+4k); finalize with nothing new does no seek/flush
hist!(c09_t_point_shx_afb, Point, 352, 3, PT, PT, true, [0, 2, 1]);
// H: tier=thorough; unwind=60; sym=payload of shapes a,b (2 f64 each); history=[write a, finalize, finalize] x {drop, finalize+drop}; shx=True; asserts=final images identical to writes-only+drop; each effective finalize flushes once, repositions at the end and commits the right lengths (.shp length field, .shx 50+4k); finalize with nothing new does no seek/flush
hist!(c09_t_point_shx_aff, Point, 352, 3, PT, PT, true, [0, 2, 2]);
// H: tier=thorough; unwind=60; sym=payload of shapes a,b (2 f64 each); history=[finalize, write a, write a] x {drop, finalize+drop}; shx=True; asserts=final images identical to writes-only+drop; each effective finalize flushes once, repositions at the end and commits the right lengths (.shp length field, .shx 50+4k); finalize with nothing new does no seek/flush
hist!(c09_t_point_shx_faa, Point, 352, 3, PT, PT, true, [2, 0, 0]);
// H: tier=thorough; unwind=60; sym=payload of shapes a,b (2 f64 each); history=[finalize, write a, write b] x {drop, finalize+drop}; shx=True; asserts=final images identical to writes-only+drop; each effective finalize flushes once, repositions at the end and commits the right lengths (.shp length field, .shx 50+4k); finalize with nothing new does no seek/flush
hist!(c09_t_point_shx_fab, Point, 352, 3, PT, PT, true, [2, 0, 1]);
// H: tier=thorough; unwind=60; sym=payload of shapes a,b (2 f64 each); history=[finalize, write a, finalize] x {drop, finalize+drop}; shx=True; asserts=final images identical to writes-only+drop; each effective finalize flushes once, repositions at the end and commits the right lengths (.shp length field, .shx 50+4k); finalize with nothing new does no seek/flush
hist!(c09_t_point_shx_faf, Point, 352, 3, PT, PT, true, [2, 0, 2]);
// H: tier=thorough; unwind=60; sym=payload of shapes a,b (2 f64 each); history=[finalize, write b, write a] x {drop, finalize+drop}; shx=True; asserts=final images identical to writes-only+drop; each effective finalize flushes once, repositions at the end and commits the right lengths (.shp length field, .shx 50+4k); finalize with nothing new does no seek/flush
hist!(c09_t_point_shx_fba, Point, 352, 3, PT, PT, true, [2, 1, 0]);
// H: tier=thorough; unwind=60; sym=payload of shapes a,b (2 f64 each); history=[finalize, write b, write b] x {drop, finalize+drop}; shx=True; asserts=final images identical to writes-only+drop; each effective finalize flushes once, repositions at the end and commits the right lengths (.shp length field, .shx 50+4k); finalize with nothing new does no seek/flush
hist!(c09_t_point_shx_fbb, Point, 352, 3, PT, PT, true, [2, 1, 1]);
// H: tier=thorough; unwind=60; sym=payload of shapes a,b (2 f64 each); history=[finalize, write b, finalize] x {drop, finalize+drop}; shx=True; asserts=final images identical to writes-only+drop; each effective finalize flushes once, repositions at the end and commits the right lengths (.shp length field, .shx 50+4k); finalize with nothing new does no seek/flush
hist!(c09_t_point_shx_fbf, Point, 352, 3, PT, PT, true, [2, 1, 2]);
// H: tier=thorough; unwind=60; sym=payload of shapes a,b (2 f64 each); history=[finalize, finalize, write a] x {drop, finalize+drop}; shx=True; asserts=final images identical to writes-only+drop; each effective finalize flushes once, repositions at the end and commits the right lengths (.shp length field, .shx 50+4k); finalize with nothing new does no seek/flush
hist!(c09_t_point_shx_ffa, Point, 352, 3, PT, PT, true, [2, 2, 0]);
// H: tier=thorough; unwind=60; sym=payload of shapes a,b (2 f64 each); history=[finalize, finalize, write b] x {drop, finalize+drop}; shx=True; asserts=final images identical to writes-only+drop; each effective finalize flushes once, repositions at the end and commits the right lengths (.shp length field, .shx 50+4k); finalize with nothing new does no seek/flush
hist!(c09_t_point_shx_ffb, Point, 352, 3, PT, PT, true, [2, 2, 1]);
// H: tier=thorough; unwind=60; sym=payload of shapes a,b (2 f64 each); history=[finalize, finalize, finalize] x {drop, finalize+drop}; shx=True; asserts=final images identical to writes-only+drop; each effective finalize flushes once, repositions at the end and commits the right lengths (.shp length field, .shx 50+4k); finalize with nothing new does no seek/flush
hist!(c09_t_point_shx_fff, Point, 352, 3, PT, PT, true, [2, 2, 2]);
// H: tier=thorough; unwind=60; sym=payload of shapes a,b (PolylineM of 2 and 3 points: records of different sizes); history=[write a, write a] x {drop, finalize+drop}; shx=True; asserts=final images identical to writes-only+drop; each effective finalize flushes once, repositions at the end and commits the right lengths (.shp length field, .shx 50+4k); finalize with nothing new does no seek/flush
hist!(c09_t_polylinem_shx_aa, PolylineM, 640, 2, PL2, PL3, true, [0, 0]);
// H: tier=thorough; unwind=60; sym=payload of shapes a,b (PolylineM of 2 and 3 points: records of different sizes); history=[write a, write b] x {drop, finalize+drop}; shx=True; asserts=final images identical to writes-only+drop; each effective finalize flushes once, repositions at the end and commits the right lengths (.shp length field, .shx 50+4k); finalize with nothing new does no seek/flush
hist!(c09_t_polylinem_shx_ab, PolylineM, 640, 2, PL2, PL3, true, [0, 1]);
// H: tier=thorough; unwind=60; sym=payload of shapes a,b (PolylineM of 2 and 3 points: records of different sizes); history=[write a, finalize] x {drop, finalize+drop}; shx=True; asserts=final images identical to writes-only+drop; each effective finalize flushes once, repositions at the end and commits the right lengths (.shp length field, .shx 50+4k); finalize with nothing new does no seek/flush
hist!(c09_t_polylinem_shx_af, PolylineM, 640, 2, PL2, PL3, true, [0, 2]);
// H: tier=thorough; unwind=60; sym=payload of shapes a,b (PolylineM of 2 and 3 points: records of different sizes); history=[write b, write a] x {drop, finalize+drop}; shx=True; asserts=final images identical to writes-only+drop; each effective finalize flushes once, repositions at the end and commits the right lengths (.shp length field, .shx 50+4k); finalize with nothing new does no seek/flush
hist!(c09_t_polylinem_shx_ba, PolylineM, 640, 2, PL2, PL3, true, [1, 0]);
// H: tier=thorough; unwind=60; sym=payload of shapes a,b (PolylineM of 2 and 3 points: records of different sizes); history=[write b, write b] x {drop, finalize+drop}; shx=True; asserts=final images identical to writes-only+drop; each effective finalize flushes once, repositions at the end and commits the right lengths (.shp length field, .shx 50+4k); finalize with nothing new does no seek/flush
hist!(c09_t_polylinem_shx_bb, PolylineM, 640, 2, PL2, PL3, true, [1, 1]);
// H: tier=thorough; unwind=60; sym=payload of shapes a,b (PolylineM of 2 and 3 points: records of different sizes); history=[write b, finalize] x {drop, finalize+drop}; shx=True; asserts=final images identical to writes-only+drop; each effective finalize flushes once, repositions at the end and commits the right lengths (.shp length field, .shx 50+4k); finalize with nothing new does no seek/flush
hist!(c09_t_polylinem_shx_bf, PolylineM, 640, 2, PL2, PL3, true, [1, 2]);
// H: tier=thorough; unwind=60; sym=payload of shapes a,b (PolylineM of 2 and 3 points: records of different sizes); history=[finalize, write a] x {drop, finalize+drop}; shx=True; asserts=final images identical to writes-only+drop; each effective finalize flushes once, repositions at the end and commits the right lengths (.shp length field, .shx 50+4k); finalize with nothing new does no seek/flush
hist!(c09_t_polylinem_shx_fa, PolylineM, 640, 2, PL2, PL3, true, [2, 0]);
// H: tier=thorough; unwind=60; sym=payload of shapes a,b (PolylineM of 2 and 3 points: records of different sizes); history=[finalize, write b] x {drop, finalize+drop}; shx=True; asserts=final images identical to writes-only+drop; each effective finalize flushes once, repositions at the end and commits the right lengths (.shp length field, .shx 50+4k); finalize with nothing new does no seek/flush
hist!(c09_t_polylinem_shx_fb, PolylineM, 640, 2, PL2, PL3, true, [2, 1]);
// H: tier=thorough; unwind=60; sym=payload of shapes a,b (PolylineM of 2 and 3 points: records of different sizes); history=[finalize, finalize] x {drop, finalize+drop}; shx=True; asserts=final images identical to writes-only+drop; each effective finalize flushes once, repositions at the end and commits the right lengths (.shp length field, .shx 50+4k); finalize with nothing new does no seek/flush
hist!(c09_t_polylinem_shx_ff, PolylineM, 640, 2, PL2, PL3, true, [2, 2]);
// H: tier=thorough; unwind=60; sym=payload of shapes a,b (4 f64 each); history=[write a, write b, finalize] x {drop, finalize+drop}; shx=False; asserts=final images identical to writes-only+drop; each effective finalize flushes once, repositions at the end and commits the right lengths (.shp length field, .shx 50+4k); finalize with nothing new does no seek/flush
hist!(c09_t_pointz_noshx_abf, PointZ, 384, 3, PT, PT, false, [0, 1, 2]);
// H: tier=thorough; unwind=60; sym=payload of shapes a,b (4 f64 each); history=[finalize, write b, write a] x {drop, finalize+drop}; shx=False; asserts=final images identical to writes-only+drop; each effective finalize flushes once, repositions at the end and commits the right lengths (.shp length field, .shx 50+4k); finalize with nothing new does no seek/flush
hist!(c09_t_pointz_noshx_fba, PointZ, 384, 3, PT, PT, false, [2, 1, 0]);
// H: tier=thorough; unwind=60; sym=payload of shapes a,b (4 f64 each); history=[write a, finalize, finalize] x {drop, finalize+drop}; shx=False; asserts=final images identical to writes-only+drop; each effective finalize flushes once, repositions at the end and commits the right lengths (.shp length field, .shx 50+4k); finalize with nothing new does no seek/flush
hist!(c09_t_pointz_noshx_aff, PointZ, 384, 3, PT, PT, false, [0, 2, 2]);
// H: tier=thorough; unwind=60; sym=payload of shapes a,b (4 f64 each); history=[finalize, write a, write a] x {drop, finalize+drop}; shx=False; asserts=final images identical to writes-only+drop; each effective finalize flushes once, repositions at the end and commits the right lengths (.shp length field, .shx 50+4k); finalize with nothing new does no seek/flush
hist!(c09_t_pointz_noshx_faa, PointZ, 384, 3, PT, PT, false, [2, 0, 0]);
// H: tier=thorough; unwind=60; sym=payload of shapes a,b (3 f64 each); history=[finalize, write a, finalize, write b] x {drop, finalize+drop}; shx=True; asserts=final images identical to writes-only+drop; each effective finalize flushes once, repositions at the end and commits the right lengths (.shp length field, .shx 50+4k); finalize with nothing new does no seek/flush
hist!(c09_t_pointm_shx_fafb, PointM, 448, 4, PT, PT, true, [2, 0, 2, 1]);
// H: tier=thorough; unwind=60; sym=payload of shapes a,b (3 f64 each); history=[write a, finalize, finalize, write b] x {drop, finalize+drop}; shx=True; asserts=final images identical to writes-only+drop; each effective finalize flushes once, repositions at the end and commits the right lengths (.shp length field, .shx 50+4k); finalize with nothing new does no seek/flush
hist!(c09_t_pointm_shx_affb, PointM, 448, 4, PT, PT, true, [0, 2, 2, 1]);
// H: tier=thorough; unwind=60; sym=payload of shapes a,b (3 f64 each); history=[finalize, finalize, write a, finalize] x {drop, finalize+drop}; shx=True; asserts=final images identical to writes-only+drop; each effective finalize flushes once, repositions at the end and commits the right lengths (.shp length field, .shx 50+4k); finalize with nothing new does no seek/flush
hist!(c09_t_pointm_shx_ffaf, PointM, 448, 4, PT, PT, true, [2, 2, 0, 2]);
// H: tier=thorough; unwind=60; sym=payload of shapes a,b (3 f64 each); history=[write a, write b, finalize, write a] x {drop, finalize+drop}; shx=True; asserts=final images identical to writes-only+drop; each effective finalize flushes once, repositions at the end and commits the right lengths (.shp length field, .shx 50+4k); finalize with nothing new does no seek/flush
hist!(c09_t_pointm_shx_abfa, PointM, 448, 4, PT, PT, true, [0, 1, 2, 0]);

// H: tier=quick; sym=2 PointM; history=write_shapes([a,b]) (consumes the writer) vs write a, write b, drop; with shx; asserts=identical .shp and .shx
#[kani::proof]
#[kani::unwind(34)]
fn c09_q_write_shapes_consumption() {
    let ma = sym_spec(T_POINTM, &PT);
    let mb = sym_spec(T_POINTM, &PT);
    let v = vec![PointM::build(&ma), PointM::build(&mb)];
    let mut shp = MemFile::<320>::new();
    let mut shx = MemFile::<320>::new();
    {
        let w = ShapeWriter::with_shx(&mut shp, &mut shx);
        let r = w.write_shapes(&v);
        assert!(r.is_ok());
        std::mem::forget(r);
    }
    let mut rshp = MemFile::<320>::new();
    let mut rshx = MemFile::<320>::new();
    {
        let mut w = ShapeWriter::with_shx(&mut rshp, &mut rshx);
        let r = w.write_shape(&v[0]);
        std::mem::forget(r);
        let r = w.write_shape(&v[1]);
        std::mem::forget(r);
    }
    assert!(same_image(&shp, &rshp));
    assert!(same_image(&shx, &rshx));
    assert!(shp.len == 100 + 2 * 36 && get_i32_be(&shp.buf, 24) as usize * 2 == shp.len);
    kani::cover!(true, "both routes compared");
}

//! C12 — destination I/O failures surface from the failing call; finalize is retryable.
use crate::env::*;
use crate::model::*;
use crate::refcodec::*;
use shapefile::record::{ConcreteReadableShape, ReadableShape, WritableShape};
use shapefile::*;

/// Result of one API call against what the fault stub saw during it.
fn judge(r: &Result<(), Error>, fired_before: u32, fired_after: u32) {
    if fired_after > fired_before {
        assert!(r.is_err(), "a destination failure during this call was swallowed (call returned Ok)");
        assert!(matches!(r, Err(Error::IoError(_))), "destination failure reported as another error kind");
    } else {
        assert!(r.is_ok(), "call failed although no destination operation failed during it");
    }
}

/// Workload: write a, write b, finalize, [heal, finalize again], drop. The fault hits the
/// k-th operation (write/seek/flush, counted per file) of the .shp or of the .shx
/// (symbolic choice), k symbolic over the whole range the workload issues (+ beyond =
/// never), one-shot or persistent (symbolic).
pub fn faults<S: TShape, const N: usize>(sp_a: &Spec, sp_b: &Spec, with_shx: bool, max_ops: u32) {
    let a = S::build(&sym_spec(S::CODE, sp_a));
    let b = S::build(&sym_spec(S::CODE, sp_b));
    // undisturbed reference first (concrete control flow)
    let mut rshp = MemFile::<N>::new();
    let mut rshx = MemFile::<N>::new();
    {
        let mut w = if with_shx {
            ShapeWriter::with_shx(&mut rshp, &mut rshx)
        } else {
            ShapeWriter::new(&mut rshp)
        };
        let r = w.write_shape(&a);
        std::mem::forget(r);
        let r = w.write_shape(&b);
        std::mem::forget(r);
    }
    // the workload issues fewer than max_ops operations on either file, so "never" is included
    assert!(rshp.ops() < max_ops && rshx.ops() < max_ops);
    let k: u32 = kani::any();
    kani::assume(k <= max_ops);
    let on_shx: bool = kani::any();
    kani::assume(with_shx || !on_shx);
    let persistent: bool = kani::any();
    faults_reset();
    let mut shp = FaultFile::<N>::new(if on_shx { u32::MAX } else { k }, persistent);
    let mut shx = FaultFile::<N>::new(if on_shx { k } else { u32::MAX }, persistent);
    let mut writes_ok = true;
    let mut finalize_failed = false;
    {
        let mut w = if with_shx {
            ShapeWriter::with_shx(&mut shp, &mut shx)
        } else {
            ShapeWriter::new(&mut shp)
        };
        let f0 = faults_fired();
        let r = w.write_shape(&a);
        judge(&r, f0, faults_fired());
        writes_ok &= r.is_ok();
        std::mem::forget(r);

        // after a failed call nothing is specified except that dropping the writer does not panic:
        // no further calls are issued (this also keeps file positions concrete for the solver)
        if writes_ok {
            let f0 = faults_fired();
            let r = w.write_shape(&b);
            judge(&r, f0, faults_fired());
            writes_ok &= r.is_ok();
            std::mem::forget(r);
        }
        if writes_ok {
            let f0 = faults_fired();
            let r = w.finalize();
            judge(&r, f0, faults_fired());
            finalize_failed = r.is_err();
            std::mem::forget(r);
        }
        if writes_ok && finalize_failed {
            // the destination works again: a second finalize must complete both files
            faults_heal();
            let r = w.finalize();
            assert!(r.is_ok(), "finalize could not be retried after the destination recovered");
            std::mem::forget(r);
            kani::cover!(true, "finalize failed and was retried");
        }
        // drop: over a persistently failing destination this must not panic
    }
    if writes_ok {
        assert!(same_image(&shp.f, &rshp), ".shp after retry differs from the undisturbed run");
        if with_shx {
            assert!(same_image(&shx.f, &rshx), ".shx after retry differs from the undisturbed run");
        }
    }
    kani::cover!(!writes_ok, "a write_shape call failed");
    kani::cover!(writes_ok && !finalize_failed, "nothing failed");
}

const PT: Spec = spec(&[]);
const PL2: Spec = spec(&[2]);

// H: tier=quick; unwind=34; sym=2 Points; fault=k-th op (k symbolic in 0..=60) on .shp or .shx (symbolic), one-shot or persistent (symbolic); workload=write, write, finalize, [heal, finalize], drop; asserts=the call during which the stub failed returns Err(IoError), other calls Ok; retried finalize gives images identical to an undisturbed run; drop does not panic
#[kani::proof]
#[kani::unwind(34)]
fn c12_q_point_shx_fault_k() {
    faults::<Point, 192>(&PT, &PT, true, 60);
}
// H: tier=quick; unwind=34; sym=2 PointZ; fault=k-th op (k symbolic in 0..=60) on .shp, one-shot or persistent; no shx; asserts=as above
#[kani::proof]
#[kani::unwind(34)]
fn c12_q_pointz_noshx_fault_k() {
    faults::<PointZ, 224>(&PT, &PT, false, 60);
}
// H: tier=manual; unwind=34; sym=Polyline [2] twice; fault=k-th op (k symbolic in 0..=90) on .shp or .shx, one-shot or persistent; asserts=as above; note=not run: solver out of memory (14 GB) after 20 min for a two-record Polyline workload with an index and a symbolic failing operation
#[kani::proof]
#[kani::unwind(34)]
fn c12_t_polyline_shx_fault_k() {
    faults::<Polyline, 320>(&PL2, &PL2, true, 90);
}
// H: tier=manual; unwind=34; sym=PolylineZ [2] twice; fault=k-th op (k symbolic in 0..=120) on .shp or .shx, one-shot or persistent; asserts=as above; note=not run: solver out of memory (14 GB) after 20 min for a two-record Polyline workload with an index and a symbolic failing operation
#[kani::proof]
#[kani::unwind(34)]
fn c12_t_polylinez_shx_fault_k() {
    faults::<PolylineZ, 512>(&PL2, &PL2, true, 120);
}

/// Short writes: every write() call accepts fewer bytes than offered, following `policy`
/// (see env::FaultFile::short_policy).
pub fn short_writes<S: TShape, const N: usize>(sp: &Spec, with_shx: bool, policy: u8) {
    let a = S::build(&sym_spec(S::CODE, sp));
    let mut shp = FaultFile::<N>::never();
    let mut shx = FaultFile::<N>::never();
    shp.short = true;
    shx.short = true;
    shp.short_policy = policy;
    shx.short_policy = policy;
    {
        let mut w = if with_shx {
            ShapeWriter::with_shx(&mut shp, &mut shx)
        } else {
            ShapeWriter::new(&mut shp)
        };
        let r = w.write_shape(&a);
        assert!(r.is_ok());
        std::mem::forget(r);
    }
    let mut rshp = MemFile::<N>::new();
    let mut rshx = MemFile::<N>::new();
    {
        let mut w = if with_shx {
            ShapeWriter::with_shx(&mut rshp, &mut rshx)
        } else {
            ShapeWriter::new(&mut rshp)
        };
        let r = w.write_shape(&a);
        std::mem::forget(r);
    }
    assert!(same_image(&shp.f, &rshp), ".shp written through short writes differs");
    if with_shx {
        assert!(same_image(&shx.f, &rshx), ".shx written through short writes differs");
    }
    kani::cover!(shp.f.n_write > rshp.n_write, "at least one write was short");
}

// H: tier=quick; unwind=34; sym=1 Point; schedule=every write() accepts exactly 1 byte; with shx; asserts=bytes identical to a run whose destination accepts everything
#[kani::proof]
#[kani::unwind(34)]
fn c12_q_point_short_writes_1byte() {
    short_writes::<Point, 160>(&PT, true, 1);
}
// H: tier=quick; unwind=34; sym=1 PointZ; schedule=every write() accepts all but one byte; with shx; asserts=bytes identical
#[kani::proof]
#[kani::unwind(34)]
fn c12_q_pointz_short_writes_allbut1() {
    short_writes::<PointZ, 192>(&PT, true, 2);
}
// H: tier=thorough; unwind=34; sym=Polyline [2]; schedule=every write() accepts half (rounded up); with shx; asserts=bytes identical
#[kani::proof]
#[kani::unwind(34)]
fn c12_t_polyline_short_writes_half() {
    short_writes::<Polyline, 256>(&PL2, true, 3);
}


//! C12 — (harnesses not written yet)

//! C07 — (harnesses not written yet)

//! C07 — reading arbitrary bytes never panics, overflows or runs forever.
//!
//! Everything the reader looks at is symbolic. The property is what Kani checks by
//! default in the dev profile it models: no arithmetic overflow, no out-of-bounds access,
//! no failed debug assertion, no `capacity overflow`, no `unwrap`/`expect` panic — plus
//! termination: every loop driven by a count from the input is unwound past the point
//! where the input runs out, with unwinding assertions on, so a pass proves the loop
//! cannot outrun the input.
use crate::env::*;
use crate::model::*;
use crate::refcodec::*;
use shapefile::header::Header;
use shapefile::record::{ConcreteReadableShape, ReadableShape, WritableShape};
use shapefile::*;

fn sym_bytes<const N: usize>() -> [u8; N] {
    kani::any()
}

// H: tier=quick; unwind=34; sym=all 100 header bytes; call=Header::read_from; asserts=returns Ok or Err, no panic/overflow
#[kani::proof]
#[kani::unwind(34)]
fn c07_q_header_any_bytes() {
    let img: [u8; 100] = sym_bytes::<100>();
    let mut src = MemSource::new(&img);
    let r = Header::read_from(&mut src);
    kani::cover!(r.is_ok());
    kani::cover!(r.is_err());
    std::mem::forget(r);
}

/// One record decoder on B symbolic content bytes and a symbolic declared size.
pub fn decode_any<S: ReadableShape, const B: usize>(code: i32, alloc_check: bool) {
    let mut img: [u8; B] = sym_bytes::<B>();
    // the type code is fixed to the decoder under test (other codes: early mismatch / invalid
    // type error, covered by C19/C06); everything behind it is arbitrary
    put_i32_le(&mut img, 0, code);
    let record_size: i32 = kani::any();
    if alloc_check {
        c17_native_reset();
    }
    let mut src = MemSource::new(&img);
    let r = S::read_from(&mut src, record_size);
    kani::cover!(r.is_err(), "some input is rejected");
    std::mem::forget(r);
    if alloc_check {
        c17_native_check();
    }
}

/// Multi-part decoders. With arbitrary part and point counts the nested part x point loops over
/// symbolic-length vectors exhaust the solver (out of memory at 10 GB even for counts in -1..=2),
/// so the hostile part of a multi-part record is split:
///  - counts and declared size: the size arithmetic (`size_of_record`) is the same expression
///    family as in the multipoint decoders, which run on fully arbitrary counts above;
///  - part offsets: here. Counts are the concrete, consistent (2 parts, 2 points, correct record
///    size), every part offset, patch kind and coordinate byte is arbitrary: offsets that are
///    negative, decreasing, beyond the point count, i32::MIN/MAX.
pub fn decode_offsets_any<S: TShape, const B: usize>(alloc_check: bool) {
    let mut m = Model::with_structure(S::CODE, &[1, 1]);
    m.with_m = may_have_m(S::CODE);
    let e = content_size(&m);
    assert!(e <= B);
    // everything arbitrary (box, part offsets, patch kinds, coordinates) except type and counts
    let mut img: [u8; B] = sym_bytes::<B>();
    put_i32_le(&mut img, 0, S::CODE);
    put_i32_le(&mut img, 36, 2);
    put_i32_le(&mut img, 40, 2);
    if alloc_check {
        c17_native_reset();
    }
    let mut src = MemSource::with_len(&img, e);
    let r = S::read_from(&mut src, e as i32);
    if alloc_check {
        c17_native_check();
    }
    kani::cover!(r.is_err(), "some offsets are rejected");
    kani::cover!(r.is_ok(), "some offsets are accepted");
    std::mem::forget(r);
}
macro_rules! decmp {
    ($name:ident, $T:ty, $B:expr, $code:expr, $uw:expr) => {
        #[kani::proof]
        #[kani::unwind($uw)]
        #[kani::stub(std::vec::Vec::with_capacity, crate::env::with_capacity_model)]
        fn $name() {
            decode_offsets_any::<$T, $B>(false);
        }
    };
}

/// Polygon-family decoders on arbitrary part offsets with all-zero coordinates: the ring
/// classification that follows decoding runs on constants, so the solver only has to deal with
/// the offsets (the fully arbitrary variant above exhausts it). Empty rings (equal offsets),
/// decreasing, negative and huge offsets are all inside.
fn decode_polygon_offsets<S: TShape, const B: usize>() {
    let mut m = Model::with_structure(S::CODE, &[1, 1]);
    m.with_m = may_have_m(S::CODE);
    let e = content_size(&m);
    assert!(e <= B);
    let mut img = [0u8; B];
    put_i32_le(&mut img, 0, S::CODE);
    put_i32_le(&mut img, 36, 2);
    put_i32_le(&mut img, 40, 2);
    let o0: i32 = kani::any();
    let o1: i32 = kani::any();
    // small range (negative, zero, equal, decreasing, beyond the point count): arbitrary i32 offsets
    // are covered by the Polyline harness; this one is about the ring classification of odd rings
    kani::assume(o0 >= -2 && o0 <= 3 && o1 >= -2 && o1 <= 3);
    put_i32_le(&mut img, 44, o0);
    put_i32_le(&mut img, 48, o1);
    let mut src = MemSource::with_len(&img, e);
    let r = S::read_from(&mut src, e as i32);
    kani::cover!(r.is_err(), "some offsets are rejected");
    kani::cover!(r.is_ok(), "some offsets are accepted");
    std::mem::forget(r);
}
// H: tier=quick; unwind=5; mem_gb=20; timeout=1500; sym=2 part offsets (each in -2..=3) of a Polygon record with concrete counts (2 rings, 2 points) and zero coordinates; call=Polygon::read_from incl. ring classification; asserts=no panic for empty rings (equal offsets), decreasing / negative / huge offsets beyond the listed findings
#[kani::proof]
#[kani::unwind(5)]
#[kani::stub(std::vec::Vec::with_capacity, crate::env::with_capacity_model)]
fn c07_q_decode_polygon_offsets_zero_coords() {
    decode_polygon_offsets::<Polygon, 84>();
}
// H: tier=manual; unwind=9; sym=2 part offsets (each in -2..=3) of a PolygonZ record with concrete counts and zero coordinates; call=PolygonZ::read_from; asserts=as above
#[kani::proof]
#[kani::unwind(9)]
#[kani::stub(std::vec::Vec::with_capacity, crate::env::with_capacity_model)]
fn c07_t_decode_polygonz_offsets_zero_coords() {
    decode_polygon_offsets::<PolygonZ, 148>();
}

macro_rules! dec {
    ($name:ident, $T:ty, $B:expr, $code:expr, $uw:expr) => {
        #[kani::proof]
        #[kani::unwind($uw)]
        #[kani::stub(std::vec::Vec::with_capacity, crate::env::with_capacity_model)]
        fn $name() {
            decode_any::<$T, $B>($code, false);
        }
    };
}
// H: tier=quick; unwind=4; sym=record_size: i32 (all values), 36 content bytes; call=Point::read_from; asserts=no panic, no arithmetic overflow, no out-of-bounds
dec!(c07_q_decode_point, Point, 36, T_POINT, 10);
// H: tier=quick; unwind=4; sym=record_size: i32, 36 content bytes; call=PointM::read_from; asserts=as above
dec!(c07_q_decode_pointm, PointM, 36, T_POINTM, 10);
// H: tier=quick; unwind=4; sym=record_size: i32, 36 content bytes; call=PointZ::read_from; asserts=as above
dec!(c07_q_decode_pointz, PointZ, 36, T_POINTZ, 10);
// H: tier=quick; unwind=12; sym=record_size: i32, 72 content bytes (box, count, up to 2 points); call=Multipoint::read_from; asserts=no panic, no overflow (count * 16, usize->i32 casts), no capacity overflow; point loop cannot outrun the input (unwinding assertion)
dec!(c07_q_decode_multipoint, Multipoint, 72, T_MULTIPOINT, 12);
// H: tier=quick; unwind=20; sym=record_size: i32, 104 content bytes; call=MultipointM::read_from; asserts=as above incl. optional M block arithmetic
dec!(c07_q_decode_multipointm, MultipointM, 104, T_MULTIPOINTM, 20);
// H: tier=quick; unwind=24; sym=record_size: i32, 120 content bytes; call=MultipointZ::read_from; asserts=as above
dec!(c07_q_decode_multipointz, MultipointZ, 120, T_MULTIPOINTZ, 24);
// H: tier=quick; unwind=5; sym=2 part offsets (any i32), patch kinds, all coordinate bytes; concrete=2 parts, 2 points, consistent record size; asserts=no panic: no subtraction overflow or negative length from decreasing/negative offsets, no failed debug assertion, no capacity overflow, no out-of-bounds
decmp!(c07_q_decode_polyline, Polyline, 84, T_POLYLINE, 5);
// H: tier=manual; unwind=7; sym=2 part offsets (any i32), patch kinds, all coordinate bytes; concrete=2 parts, 2 points, consistent record size; asserts=no panic: no subtraction overflow or negative length from decreasing/negative offsets, no failed debug assertion, no capacity overflow, no out-of-bounds; note=not run by any tier: solver out of memory (10 GB) / no result in 900 s
decmp!(c07_q_decode_polylinem, PolylineM, 116, T_POLYLINEM, 7);
// H: tier=manual; unwind=9; sym=2 part offsets (any i32), patch kinds, all coordinate bytes; concrete=2 parts, 2 points, consistent record size; asserts=no panic: no subtraction overflow or negative length from decreasing/negative offsets, no failed debug assertion, no capacity overflow, no out-of-bounds; note=not run by any tier: solver out of memory (10 GB) / no result in 900 s
decmp!(c07_q_decode_polylinez, PolylineZ, 148, T_POLYLINEZ, 9);
// H: tier=manual; unwind=5; sym=2 part offsets (any i32), patch kinds, all coordinate bytes; concrete=2 parts, 2 points, consistent record size; asserts=no panic: no subtraction overflow or negative length from decreasing/negative offsets, no failed debug assertion, no capacity overflow, no out-of-bounds; note=not run by any tier: solver out of memory (10 GB) / no result in 900 s
decmp!(c07_q_decode_polygon, Polygon, 84, T_POLYGON, 5);
// H: tier=manual; unwind=7; sym=2 part offsets (any i32), patch kinds, all coordinate bytes; concrete=2 parts, 2 points, consistent record size; asserts=no panic: no subtraction overflow or negative length from decreasing/negative offsets, no failed debug assertion, no capacity overflow, no out-of-bounds; note=not run by any tier: solver out of memory (10 GB) / no result in 900 s
decmp!(c07_t_decode_polygonm, PolygonM, 116, T_POLYGONM, 7);
// H: tier=manual; unwind=9; sym=2 part offsets (any i32), patch kinds, all coordinate bytes; concrete=2 parts, 2 points, consistent record size; asserts=no panic: no subtraction overflow or negative length from decreasing/negative offsets, no failed debug assertion, no capacity overflow, no out-of-bounds; note=not run by any tier: solver out of memory (10 GB) / no result in 900 s
decmp!(c07_t_decode_polygonz, PolygonZ, 148, T_POLYGONZ, 9);
// H: tier=manual; unwind=9; sym=2 part offsets (any i32), patch kinds, all coordinate bytes; concrete=2 parts, 2 points, consistent record size; asserts=no panic: no subtraction overflow or negative length from decreasing/negative offsets, no failed debug assertion, no capacity overflow, no out-of-bounds; note=not run by any tier: solver out of memory (10 GB) / no result in 900 s
decmp!(c07_q_decode_multipatch, Multipatch, 156, T_MULTIPATCH, 9);

// H: tier=quick; unwind=22; sym=116 index bytes behind a valid file code (length field, entries arbitrary), 100-byte .shp header arbitrary behind a valid code; call=ShapeReader::with_shx + shape_count; asserts=no panic / overflow (length*2-100), no capacity overflow; entry loop cannot outrun the input
#[kani::proof]
#[kani::unwind(22)]
#[kani::stub(std::vec::Vec::with_capacity, crate::env::with_capacity_model)]
fn c07_q_open_with_index_any_bytes() {
    let mut shx: [u8; 116] = sym_bytes::<116>();
    put_i32_be(&mut shx, 0, 9994);
    put_i32_le(&mut shx, 32, 1);
    let mut shp: [u8; 100] = sym_bytes::<100>();
    put_i32_be(&mut shp, 0, 9994);
    put_i32_le(&mut shp, 32, 1);
    let rd = ShapeReader::with_shx(MemSource::new(&shp), MemSource::new(&shx));
    if let Ok(r) = &rd {
        let c = r.shape_count();
        std::mem::forget(c);
    }
    kani::cover!(rd.is_ok());
    kani::cover!(rd.is_err());
    std::mem::forget(rd);
}

/// File level, no index: arbitrary header length and arbitrary record bytes; three next()
/// calls. Termination facts asserted on the source monitor: a `Some(Ok)` consumed at least 8
/// bytes; after a `Some(Err)` the iteration is over.
fn iterate_any<S: ReadableShape, const N: usize>(code: i32) {
    let mut img: [u8; N] = sym_bytes::<N>();
    put_i32_be(&mut img, 0, 9994);
    put_i32_le(&mut img, 32, code);
    let mut rd = ShapeReader::new(MemSource::new(&img));
    match &mut rd {
        Ok(rd) => {
            let mut it = rd.iter_shapes_as::<S>();
            let mut failed = false;
            let mut k = 0;
            while k < 3 {
                let item = it.next();
                match &item {
                    Some(Ok(_)) => assert!(!failed, "iteration yields shapes after it reported an error"),
                    Some(Err(_)) => {
                        assert!(!failed, "iteration keeps reporting errors: not bounded by the input");
                        failed = true;
                    }
                    None => {}
                }
                std::mem::forget(item);
                k += 1;
            }
        }
        Err(_) => {}
    }
    kani::cover!(rd.is_ok());
    std::mem::forget(rd);
}
// H: tier=quick; unwind=22; sym=136 file bytes behind a valid file code and type Point (length field, record numbers, content lengths, payload arbitrary); call=ShapeReader::new + 3 x next(); asserts=no panic/overflow (content length * 2, size - 4, position arithmetic); after Some(Err) no further item (iteration bounded by the input)
#[kani::proof]
#[kani::unwind(22)]
#[kani::stub(std::vec::Vec::with_capacity, crate::env::with_capacity_model)]
fn c07_q_iterate_point_any_bytes() {
    iterate_any::<Point, 136>(T_POINT);
}
// H: tier=thorough; unwind=22; sym=172 file bytes behind a valid file code and type Multipoint; call=ShapeReader::new + 3 x next(); asserts=as above
#[kani::proof]
#[kani::unwind(22)]
#[kani::stub(std::vec::Vec::with_capacity, crate::env::with_capacity_model)]
fn c07_t_iterate_multipoint_any_bytes() {
    iterate_any::<Multipoint, 172>(T_MULTIPOINT);
}

// H: tier=quick; unwind=22; sym=2 index entries (offset, length: any i32) in a well-formed 116-byte index, 136 arbitrary .shp bytes behind a valid code; call=with_shx, seek(i) and read_nth_shape_as::<Point>(i) for i in 0..=2, then 3 x next(); asserts=no panic/overflow (offset * 2 as u64 / as i32), no hang
#[kani::proof]
#[kani::unwind(22)]
#[kani::stub(std::vec::Vec::with_capacity, crate::env::with_capacity_model)]
fn c07_q_index_entries_any_values() {
    let mut shx = [0u8; 116];
    enc_header(&mut shx, 116, T_POINT, &[0.0; 8]);
    let mut i = 100;
    while i < 116 {
        shx[i] = kani::any();
        i += 1;
    }
    let mut shp: [u8; 136] = sym_bytes::<136>();
    put_i32_be(&mut shp, 0, 9994);
    put_i32_le(&mut shp, 32, T_POINT);
    let mut rd = ShapeReader::with_shx(MemSource::new(&shp), MemSource::new(&shx));
    match &mut rd {
        Ok(rd) => {
            let mut i = 0;
            while i < 3 {
                let s = rd.seek(i);
                std::mem::forget(s);
                let item = rd.read_nth_shape_as::<Point>(i);
                std::mem::forget(item);
                i += 1;
            }
            let mut it = rd.iter_shapes_as::<Point>();
            let mut k = 0;
            while k < 3 {
                let item = it.next();
                std::mem::forget(item);
                k += 1;
            }
        }
        Err(_) => {}
    }
    kani::cover!(rd.is_ok());
    std::mem::forget(rd);
}

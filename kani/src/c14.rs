//! C14 — (harnesses not written yet)

//! C14 — with an index, records are located by the index alone.
use crate::c13::assert_read_equals_stored;
use crate::env::*;
use crate::model::*;
use crate::refcodec::*;
use shapefile::record::{ConcreteReadableShape, ReadableShape, WritableShape};
use shapefile::*;

/// Physical layout: records (in logical numbering 0..n) are stored in the order `order`,
/// with `fill[j]` filler words (16-bit) before the j-th stored record and `fill[n]` after the
/// last; filler bytes are symbolic. The index lists the records in logical order. The header
/// length covers the whole file.
pub fn layout<S: TShape, const N: usize>(specs: &[Spec], order: &[usize], fill: &[usize]) {
    let n = specs.len();
    let mut img: [u8; N] = kani::any();
    let mut idx = [0u8; 160];
    let mut models = [Model::empty(S::CODE); MAXR];
    let mut offs = [0usize; MAXR];
    let mut lens = [0usize; MAXR];
    let mut p = 100;
    let mut j = 0;
    while j < n {
        p += 2 * fill[j];
        let r = order[j];
        let mut m = sym_spec(S::CODE, &specs[r]);
        m.with_m = may_have_m(S::CODE);
        let mut c = 0;
        while c < 8 {
            m.bbox[c] = any_f64();
            c += 1;
        }
        let e = enc_record(&m, (r + 1) as i32, &mut img, p);
        models[r] = m;
        offs[r] = p;
        lens[r] = e - p - 8;
        p = e;
        j += 1;
    }
    p += 2 * fill[n];
    assert!(p <= N);
    enc_header(&mut img, p, S::CODE, &[0.0; 8]);
    let mut q = 100;
    let mut r = 0;
    while r < n {
        q = enc_index_entry(&mut idx, q, offs[r], lens[r]);
        r += 1;
    }
    enc_header(&mut idx, q, S::CODE, &[0.0; 8]);

    let mut rd = ShapeReader::with_shx(MemSource::with_len(&img, p), MemSource::with_len(&idx, q));
    match &mut rd {
        Ok(rd) => {
            let c = rd.shape_count();
            assert!(matches!(c, Ok(k) if k == n));
            std::mem::forget(c);
            {
                let mut it = rd.iter_shapes_as::<S>();
                let mut r = 0;
                while r < n {
                    let item = it.next();
                    match &item {
                        Some(Ok(s)) => assert_read_equals_stored::<S>(&models[r], &s.extract()),
                        Some(Err(_)) => assert!(false, "iteration failed on a record the index addresses"),
                        None => assert!(false, "iteration ended before the index was exhausted (record dropped)"),
                    }
                    std::mem::forget(item);
                    r += 1;
                }
                let item = it.next();
                assert!(item.is_none(), "iteration yields more items than index entries");
                std::mem::forget(item);
            }
            let mut r = 0;
            while r < n {
                let item = rd.read_nth_shape_as::<S>(r);
                match &item {
                    Some(Ok(s)) => assert_read_equals_stored::<S>(&models[r], &s.extract()),
                    _ => assert!(false, "random access failed on a record the index addresses"),
                }
                std::mem::forget(item);
                r += 1;
            }
        }
        Err(_) => assert!(false, "reader could not be opened"),
    }
    std::mem::forget(rd);
    kani::cover!(true, "layout read through the index");
}

const PT: Spec = spec(&[]);
const PL2: Spec = spec(&[2]);
const PL3: Spec = spec(&[3]);

macro_rules! lay {
    ($name:ident, $T:ty, $N:expr, $specs:expr, $order:expr, $fill:expr) => {
        #[kani::proof]
        #[kani::unwind(34)]
        fn $name() {
            layout::<$T, $N>(&$specs, &$order, &$fill);
        }
    };
}
// H: tier=quick; unwind=34; sym=payload of 2 Points, filler bytes; layout=physical order [0,1], filler words [0,4,0] (4 words between the records); asserts=iteration yields one shape per index entry in index order, each equal to the record at its offset and to read_nth_shape(i); shape_count == n
lay!(c14_q_points_gap_between, Point, 256, [PT, PT], [0, 1], [0, 4, 0]);
// H: tier=quick; unwind=34; sym=payload, filler; layout=physical order [0,1], filler [1,0,4] (before the first record and after the last); asserts=as above
lay!(c14_q_points_gap_before_and_after, Point, 256, [PT, PT], [0, 1], [1, 0, 4]);
// H: tier=quick; unwind=34; sym=payload; layout=physical order [1,0] (second record stored first), no filler; asserts=as above
lay!(c14_q_points_swapped, Point, 256, [PT, PT], [1, 0], [0, 0, 0]);
// H: tier=manual; unwind=34; sym=payload, filler; layout=Polylines of 2 and 3 points stored as [1,0] with filler [1,4,1]; asserts=as above (records of different sizes); note=not run: with a gap or a swap the iterator's position after a record read through `?` is not a constant for CBMC, the next record is read at a symbolic offset and the vertex loops become unbounded (no result in 900 s). The index logic is independent of the record type and is covered with Point records.
lay!(c14_q_polylines_swapped_with_gaps, Polyline, 416, [PL2, PL3], [1, 0], [1, 4, 1]);
// H: tier=quick; unwind=34; sym=payload; layout=3 Points stored as [2,0,1], no filler; asserts=as above
lay!(c14_q_points3_rotated, Point, 288, [PT, PT, PT], [2, 0, 1], [0, 0, 0, 0]);
// H: tier=quick; unwind=34; sym=payload; layout=3 Points stored as [1,0,2], no filler (the third index entry's offset equals header + sizes read so far, although the source is elsewhere after two seeks); asserts=as above
lay!(c14_q_points3_102, Point, 288, [PT, PT, PT], [1, 0, 2], [0, 0, 0, 0]);
// H: tier=quick; unwind=34; sym=payload; layout=3 Points stored as [2,1,0], no filler (the second index entry's offset equals header + size of one record, although the source is at the end of the file); asserts=as above
lay!(c14_q_points3_reversed, Point, 288, [PT, PT, PT], [2, 1, 0], [0, 0, 0, 0]);
// H: tier=quick; unwind=34; sym=payload; layout=3 Points in order, no filler (the layout the writer produces); asserts=as above
lay!(c14_q_points3_plain, Point, 288, [PT, PT, PT], [0, 1, 2], [0, 0, 0, 0]);
// H: tier=thorough; unwind=34; sym=payload of 3 Points, filler bytes; layout=physical order [0, 1, 2], filler words [1, 0, 0, 0]; asserts=as c14_q_points_gap_between
lay!(c14_t_points3_012_f1000, Point, 320, [PT, PT, PT], [0, 1, 2], [1, 0, 0, 0]);
// H: tier=thorough; unwind=34; sym=payload of 3 Points, filler bytes; layout=physical order [0, 1, 2], filler words [0, 4, 0, 1]; asserts=as c14_q_points_gap_between
lay!(c14_t_points3_012_f0401, Point, 320, [PT, PT, PT], [0, 1, 2], [0, 4, 0, 1]);
// H: tier=thorough; unwind=34; sym=payload of 3 Points, filler bytes; layout=physical order [0, 1, 2], filler words [4, 1, 4, 0]; asserts=as c14_q_points_gap_between
lay!(c14_t_points3_012_f4140, Point, 320, [PT, PT, PT], [0, 1, 2], [4, 1, 4, 0]);
// H: tier=thorough; unwind=34; sym=payload of 3 Points, filler bytes; layout=physical order [0, 2, 1], filler words [0, 0, 0, 0]; asserts=as c14_q_points_gap_between
lay!(c14_t_points3_021_f0000, Point, 320, [PT, PT, PT], [0, 2, 1], [0, 0, 0, 0]);
// H: tier=thorough; unwind=34; sym=payload of 3 Points, filler bytes; layout=physical order [0, 2, 1], filler words [1, 0, 0, 0]; asserts=as c14_q_points_gap_between
lay!(c14_t_points3_021_f1000, Point, 320, [PT, PT, PT], [0, 2, 1], [1, 0, 0, 0]);
// H: tier=thorough; unwind=34; sym=payload of 3 Points, filler bytes; layout=physical order [0, 2, 1], filler words [0, 4, 0, 1]; asserts=as c14_q_points_gap_between
lay!(c14_t_points3_021_f0401, Point, 320, [PT, PT, PT], [0, 2, 1], [0, 4, 0, 1]);
// H: tier=thorough; unwind=34; sym=payload of 3 Points, filler bytes; layout=physical order [0, 2, 1], filler words [4, 1, 4, 0]; asserts=as c14_q_points_gap_between
lay!(c14_t_points3_021_f4140, Point, 320, [PT, PT, PT], [0, 2, 1], [4, 1, 4, 0]);
// H: tier=thorough; unwind=34; sym=payload of 3 Points, filler bytes; layout=physical order [1, 0, 2], filler words [0, 0, 0, 0]; asserts=as c14_q_points_gap_between
lay!(c14_t_points3_102_f0000, Point, 320, [PT, PT, PT], [1, 0, 2], [0, 0, 0, 0]);
// H: tier=thorough; unwind=34; sym=payload of 3 Points, filler bytes; layout=physical order [1, 0, 2], filler words [1, 0, 0, 0]; asserts=as c14_q_points_gap_between
lay!(c14_t_points3_102_f1000, Point, 320, [PT, PT, PT], [1, 0, 2], [1, 0, 0, 0]);
// H: tier=thorough; unwind=34; sym=payload of 3 Points, filler bytes; layout=physical order [1, 0, 2], filler words [0, 4, 0, 1]; asserts=as c14_q_points_gap_between
lay!(c14_t_points3_102_f0401, Point, 320, [PT, PT, PT], [1, 0, 2], [0, 4, 0, 1]);
// H: tier=thorough; unwind=34; sym=payload of 3 Points, filler bytes; layout=physical order [1, 0, 2], filler words [4, 1, 4, 0]; asserts=as c14_q_points_gap_between
lay!(c14_t_points3_102_f4140, Point, 320, [PT, PT, PT], [1, 0, 2], [4, 1, 4, 0]);
// H: tier=thorough; unwind=34; sym=payload of 3 Points, filler bytes; layout=physical order [1, 2, 0], filler words [0, 0, 0, 0]; asserts=as c14_q_points_gap_between
lay!(c14_t_points3_120_f0000, Point, 320, [PT, PT, PT], [1, 2, 0], [0, 0, 0, 0]);
// H: tier=thorough; unwind=34; sym=payload of 3 Points, filler bytes; layout=physical order [1, 2, 0], filler words [1, 0, 0, 0]; asserts=as c14_q_points_gap_between
lay!(c14_t_points3_120_f1000, Point, 320, [PT, PT, PT], [1, 2, 0], [1, 0, 0, 0]);
// H: tier=thorough; unwind=34; sym=payload of 3 Points, filler bytes; layout=physical order [1, 2, 0], filler words [0, 4, 0, 1]; asserts=as c14_q_points_gap_between
lay!(c14_t_points3_120_f0401, Point, 320, [PT, PT, PT], [1, 2, 0], [0, 4, 0, 1]);
// H: tier=thorough; unwind=34; sym=payload of 3 Points, filler bytes; layout=physical order [1, 2, 0], filler words [4, 1, 4, 0]; asserts=as c14_q_points_gap_between
lay!(c14_t_points3_120_f4140, Point, 320, [PT, PT, PT], [1, 2, 0], [4, 1, 4, 0]);
// H: tier=thorough; unwind=34; sym=payload of 3 Points, filler bytes; layout=physical order [2, 0, 1], filler words [1, 0, 0, 0]; asserts=as c14_q_points_gap_between
lay!(c14_t_points3_201_f1000, Point, 320, [PT, PT, PT], [2, 0, 1], [1, 0, 0, 0]);
// H: tier=thorough; unwind=34; sym=payload of 3 Points, filler bytes; layout=physical order [2, 0, 1], filler words [0, 4, 0, 1]; asserts=as c14_q_points_gap_between
lay!(c14_t_points3_201_f0401, Point, 320, [PT, PT, PT], [2, 0, 1], [0, 4, 0, 1]);
// H: tier=thorough; unwind=34; sym=payload of 3 Points, filler bytes; layout=physical order [2, 0, 1], filler words [4, 1, 4, 0]; asserts=as c14_q_points_gap_between
lay!(c14_t_points3_201_f4140, Point, 320, [PT, PT, PT], [2, 0, 1], [4, 1, 4, 0]);
// H: tier=thorough; unwind=34; sym=payload of 3 Points, filler bytes; layout=physical order [2, 1, 0], filler words [0, 0, 0, 0]; asserts=as c14_q_points_gap_between
lay!(c14_t_points3_210_f0000, Point, 320, [PT, PT, PT], [2, 1, 0], [0, 0, 0, 0]);
// H: tier=thorough; unwind=34; sym=payload of 3 Points, filler bytes; layout=physical order [2, 1, 0], filler words [1, 0, 0, 0]; asserts=as c14_q_points_gap_between
lay!(c14_t_points3_210_f1000, Point, 320, [PT, PT, PT], [2, 1, 0], [1, 0, 0, 0]);
// H: tier=thorough; unwind=34; sym=payload of 3 Points, filler bytes; layout=physical order [2, 1, 0], filler words [0, 4, 0, 1]; asserts=as c14_q_points_gap_between
lay!(c14_t_points3_210_f0401, Point, 320, [PT, PT, PT], [2, 1, 0], [0, 4, 0, 1]);
// H: tier=thorough; unwind=34; sym=payload of 3 Points, filler bytes; layout=physical order [2, 1, 0], filler words [4, 1, 4, 0]; asserts=as c14_q_points_gap_between
lay!(c14_t_points3_210_f4140, Point, 320, [PT, PT, PT], [2, 1, 0], [4, 1, 4, 0]);
// H: tier=thorough; unwind=34; sym=payload of Polylines of 2 and 3 points, filler bytes; layout=physical order [0, 1], filler words [0, 0, 0]; asserts=as above
lay!(c14_t_polylines_01_f000, Polyline, 416, [PL2, PL3], [0, 1], [0, 0, 0]);
// H: tier=manual; unwind=34; sym=payload of Polylines of 2 and 3 points, filler bytes; layout=physical order [0, 1], filler words [0, 1, 0]; asserts=as above; note=not run: with a gap or a swap the iterator's position after a record read through `?` is not a constant for CBMC, the next record is read at a symbolic offset and the vertex loops become unbounded (no result in 900 s). The index logic is independent of the record type and is covered with Point records.
lay!(c14_t_polylines_01_f010, Polyline, 416, [PL2, PL3], [0, 1], [0, 1, 0]);
// H: tier=manual; unwind=34; sym=payload of Polylines of 2 and 3 points, filler bytes; layout=physical order [0, 1], filler words [4, 0, 1]; asserts=as above; note=not run: with a gap or a swap the iterator's position after a record read through `?` is not a constant for CBMC, the next record is read at a symbolic offset and the vertex loops become unbounded (no result in 900 s). The index logic is independent of the record type and is covered with Point records.
lay!(c14_t_polylines_01_f401, Polyline, 416, [PL2, PL3], [0, 1], [4, 0, 1]);
// H: tier=manual; unwind=34; sym=payload of Polylines of 2 and 3 points, filler bytes; layout=physical order [0, 1], filler words [1, 4, 4]; asserts=as above; note=not run: with a gap or a swap the iterator's position after a record read through `?` is not a constant for CBMC, the next record is read at a symbolic offset and the vertex loops become unbounded (no result in 900 s). The index logic is independent of the record type and is covered with Point records.
lay!(c14_t_polylines_01_f144, Polyline, 416, [PL2, PL3], [0, 1], [1, 4, 4]);
// H: tier=manual; unwind=34; sym=payload of Polylines of 2 and 3 points, filler bytes; layout=physical order [1, 0], filler words [0, 0, 0]; asserts=as above; note=not run: with a gap or a swap the iterator's position after a record read through `?` is not a constant for CBMC, the next record is read at a symbolic offset and the vertex loops become unbounded (no result in 900 s). The index logic is independent of the record type and is covered with Point records.
lay!(c14_t_polylines_10_f000, Polyline, 416, [PL2, PL3], [1, 0], [0, 0, 0]);
// H: tier=manual; unwind=34; sym=payload of Polylines of 2 and 3 points, filler bytes; layout=physical order [1, 0], filler words [0, 1, 0]; asserts=as above; note=not run: with a gap or a swap the iterator's position after a record read through `?` is not a constant for CBMC, the next record is read at a symbolic offset and the vertex loops become unbounded (no result in 900 s). The index logic is independent of the record type and is covered with Point records.
lay!(c14_t_polylines_10_f010, Polyline, 416, [PL2, PL3], [1, 0], [0, 1, 0]);
// H: tier=manual; unwind=34; sym=payload of Polylines of 2 and 3 points, filler bytes; layout=physical order [1, 0], filler words [4, 0, 1]; asserts=as above; note=not run: with a gap or a swap the iterator's position after a record read through `?` is not a constant for CBMC, the next record is read at a symbolic offset and the vertex loops become unbounded (no result in 900 s). The index logic is independent of the record type and is covered with Point records.
lay!(c14_t_polylines_10_f401, Polyline, 416, [PL2, PL3], [1, 0], [4, 0, 1]);
// H: tier=manual; unwind=34; sym=payload of Polylines of 2 and 3 points, filler bytes; layout=physical order [1, 0], filler words [1, 4, 4]; asserts=as above; note=not run: with a gap or a swap the iterator's position after a record read through `?` is not a constant for CBMC, the next record is read at a symbolic offset and the vertex loops become unbounded (no result in 900 s). The index logic is independent of the record type and is covered with Point records.
lay!(c14_t_polylines_10_f144, Polyline, 416, [PL2, PL3], [1, 0], [1, 4, 4]);

//! C06 — (harnesses not written yet)

//! C06 — typed reads agree with generic reads; shape type identity is consistent.
use crate::env::*;
use crate::model::*;
use crate::refcodec::*;
use shapefile::record::{ConcreteReadableShape, HasShapeType, ReadableShape, WritableShape};
use shapefile::*;

/// Minimal structure for a type code (Poly: one part of 2; Multipoint: 2 points;
/// Multipatch: one triangle strip of 3).
fn minimal(code: i32) -> Model {
    match family(code) {
        Some(Family::Point) | Some(Family::Null) => Model::with_structure(code, &[]),
        Some(Family::Multipoint) => Model::with_structure(code, &[2]),
        Some(Family::Multipatch) => Model::with_structure(code, &[3]),
        _ => Model::with_structure(code, &[2]),
    }
}

// ---- (i) identity --------------------------------------------------------------------

/// Shape::from(c).shapetype() == C::shapetype() == the code written in the record and in
/// the header; C::try_from(Shape::from(c)) gives back c bit for bit.
fn identity<S: TShape + Clone>() {
    let mut m = minimal(S::CODE);
    sym_vertices(&mut m);
    assume_xy_not_nan(&m);
    let c = S::build(&m);
    let built = c.extract();
    assert!(<S as HasShapeType>::shapetype() as i32 == S::CODE);
    // the code the writer puts in the header and the record
    let mut shp = MemFile::<320>::new();
    {
        let mut w = ShapeWriter::new(&mut shp);
        let r = w.write_shape(&c);
        assert!(r.is_ok());
        std::mem::forget(r);
    }
    assert!(get_i32_le(&shp.buf, 32) == S::CODE);
    assert!(get_i32_le(&shp.buf, 108) == S::CODE);
    let sh: Shape = c.into();
    assert!(sh.shapetype() as i32 == S::CODE, "generic value reports another type than its concrete type");
    assert!(S::of_shape(&sh).is_some());
    let back = S::try_from(sh);
    match &back {
        Ok(t) => {
            let got = t.extract();
            assert!(same_structure(&built, &got));
            assert!(same_vertices(&built, &got, true, 1));
            assert!(same_bbox(&built, &got, 0, 8));
            kani::cover!(true, "converted into Shape and back");
        }
        Err(_) => assert!(false, "try_from of the matching variant failed"),
    }
    std::mem::forget(back);
}

macro_rules! ident {
    ($name:ident, $T:ty) => {
        #[kani::proof]
        #[kani::unwind(22)]
        fn $name() {
            identity::<$T>();
        }
    };
}
// H: tier=quick; sym=Point coords; asserts=Shape::from(c).shapetype()==C::shapetype()==record/header code; try_from(Shape::from(c)) is c bit for bit
ident!(c06_q_identity_point, Point);
// H: tier=quick; sym=PointM coords; asserts=type identity and Shape round trip
ident!(c06_q_identity_pointm, PointM);
// H: tier=quick; sym=PointZ coords; asserts=type identity and Shape round trip
ident!(c06_q_identity_pointz, PointZ);
// H: tier=quick; sym=Polyline [2] coords; asserts=type identity and Shape round trip
ident!(c06_q_identity_polyline, Polyline);
// H: tier=quick; sym=PolylineM [2] coords; asserts=type identity and Shape round trip
ident!(c06_q_identity_polylinem, PolylineM);
// H: tier=quick; sym=PolylineZ [2] coords; asserts=type identity and Shape round trip
ident!(c06_q_identity_polylinez, PolylineZ);
// H: tier=quick; sym=Multipoint 2 coords; asserts=type identity and Shape round trip
ident!(c06_q_identity_multipoint, Multipoint);
// H: tier=quick; sym=MultipointM 2 coords; asserts=type identity and Shape round trip
ident!(c06_q_identity_multipointm, MultipointM);
// H: tier=quick; sym=MultipointZ 2 coords; asserts=type identity and Shape round trip
ident!(c06_q_identity_multipointz, MultipointZ);
// H: tier=quick; sym=Multipatch strip 3 coords; asserts=type identity and Shape round trip
ident!(c06_q_identity_multipatch, Multipatch);

fn polygon_identity<S: TShape>() {
    // closed clockwise square with concrete XY and end vertices; interior Z/M symbolic
    let mut m = Model::with_structure(S::CODE, &[5]);
    sym_vertices(&mut m);
    let xy: [[f64; 2]; 5] = [[0.0, 0.0], [0.0, 4.0], [4.0, 4.0], [4.0, 0.0], [0.0, 0.0]];
    let mut j = 0;
    while j < 5 {
        m.v[j][0] = xy[j][0];
        m.v[j][1] = xy[j][1];
        j += 1;
    }
    m.v[0][2] = 1.0;
    m.v[0][3] = 2.0;
    m.v[4][2] = 1.0;
    m.v[4][3] = 2.0;
    let c = S::build(&m);
    let built = c.extract();
    assert!(<S as HasShapeType>::shapetype() as i32 == S::CODE);
    let sh: Shape = c.into();
    assert!(sh.shapetype() as i32 == S::CODE);
    let back = S::try_from(sh);
    match &back {
        Ok(t) => {
            let got = t.extract();
            assert!(same_structure(&built, &got));
            assert!(same_vertices(&built, &got, true, 1));
            assert!(same_bbox(&built, &got, 0, 8));
            kani::cover!(true, "converted into Shape and back");
        }
        Err(_) => assert!(false),
    }
    std::mem::forget(back);
}
// H: tier=quick; sym=none for Polygon (concrete closed square); asserts=type identity and Shape round trip
#[kani::proof]
#[kani::unwind(22)]
fn c06_q_identity_polygon() {
    polygon_identity::<Polygon>();
}
// H: tier=quick; sym=M of 3 interior vertices; asserts=type identity and Shape round trip
#[kani::proof]
#[kani::unwind(22)]
fn c06_q_identity_polygonm() {
    polygon_identity::<PolygonM>();
}
// H: tier=quick; sym=Z,M of 3 interior vertices; asserts=type identity and Shape round trip
#[kani::proof]
#[kani::unwind(22)]
fn c06_q_identity_polygonz() {
    polygon_identity::<PolygonZ>();
}
// H: tier=quick; sym=none; asserts=Shape::NullShape reports NullShape (code 0)
#[kani::proof]
fn c06_q_identity_null() {
    let s = Shape::NullShape;
    assert!(s.shapetype() as i32 == 0);
    kani::cover!(true, "null shape");
}

// ---- (ii) requested S x actual T ------------------------------------------------------

/// Encode a minimal record content of type `t` with symbolic payload, independent encoder.
fn content_of(t: i32, buf: &mut [u8; 256]) -> usize {
    let mut m = minimal(t);
    sym_vertices(&mut m);
    let mut i = 0;
    while i < 8 {
        m.bbox[i] = any_f64();
        i += 1;
    }
    if t == T_MULTIPATCH {
        m.pkind[0] = 0;
    }
    enc_content(&m, buf, 0)
}

/// For every actual type T (concrete loop over the 14 codes): the typed read as S of a
/// T-record is Ok exactly when T == S and then equals the generic read; otherwise it is
/// MismatchShapeType{requested: S, actual: T} and never a value.
fn row<S: TShape>() {
    let mut k = 0;
    while k < 14 {
        let t = ALL_CODES[k];
        let mut buf = [0u8; 256];
        let len = content_of(t, &mut buf);
        let mut src = MemSource::with_len(&buf, len);
        let typed = S::read_from(&mut src, len as i32);
        let mut src2 = MemSource::with_len(&buf, len);
        let generic = Shape::read_from(&mut src2, len as i32);
        match &generic {
            Ok(sh) => {
                assert!(sh.shapetype() as i32 == t, "generic value reports another type than its record");
            }
            Err(_) => assert!(false, "generic read of a well-formed record failed"),
        }
        if t == S::CODE {
            match (&typed, &generic) {
                (Ok(a), Ok(sh)) => match S::of_shape(sh) {
                    Some(b) => {
                        let ma = a.extract();
                        let mb = b.extract();
                        assert!(same_structure(&ma, &mb));
                        assert!(same_vertices(&ma, &mb, true, 1));
                        assert!(same_bbox(&ma, &mb, 0, 8));
                        kani::cover!(true, "typed == generic on the diagonal");
                    }
                    None => assert!(false, "generic read produced another variant"),
                },
                _ => assert!(false, "typed read of its own type failed"),
            }
        } else {
            match &typed {
                Err(Error::MismatchShapeType { requested, actual }) => {
                    assert!(*requested as i32 == S::CODE);
                    assert!(*actual as i32 == t);
                }
                Ok(_) => assert!(false, "typed read yielded a value of the wrong type"),
                Err(_) => assert!(false, "typed read failed with another error than a type mismatch"),
            }
        }
        std::mem::forget(typed);
        std::mem::forget(generic);
        k += 1;
    }
}

macro_rules! rowh {
    ($name:ident, $T:ty) => {
        #[kani::proof]
        #[kani::unwind(22)]
        fn $name() {
            row::<$T>();
        }
    };
}
// H: tier=quick; sym=payload of 14 minimal records (one per type code); requested=Point; asserts=typed Ok iff actual==requested and equal to generic; else MismatchShapeType{requested,actual}; generic value's shapetype()==record code
rowh!(c06_q_row_point, Point);
// H: tier=quick; sym=payload of 14 minimal records; requested=MultipointM; asserts=as row_point
rowh!(c06_q_row_multipointm, MultipointM);
// H: tier=thorough; sym=payload of 14 minimal records; requested=MultipointZ; asserts=as row_point
rowh!(c06_q_row_multipointz, MultipointZ);
// H: tier=thorough; sym=payload of 14 minimal records; requested=PolylineZ; asserts=as row_point
rowh!(c06_q_row_polylinez, PolylineZ);
// H: tier=thorough; sym=payload of 14 minimal records; requested=PointM; asserts=as row_point
rowh!(c06_t_row_pointm, PointM);
// H: tier=thorough; sym=payload of 14 minimal records; requested=PointZ; asserts=as row_point
rowh!(c06_t_row_pointz, PointZ);
// H: tier=thorough; sym=payload of 14 minimal records; requested=Polyline; asserts=as row_point
rowh!(c06_t_row_polyline, Polyline);
// H: tier=thorough; sym=payload of 14 minimal records; requested=PolylineM; asserts=as row_point
rowh!(c06_t_row_polylinem, PolylineM);
// H: tier=manual; sym=payload of 14 minimal records; requested=Polygon; asserts=as row_point; note=not run: no result after 65 min (the ring classification of 14 symbolic records behind a typed read is solver-hard); the polygon types are covered by the identity and convert harnesses and by the columns of the other rows
rowh!(c06_t_row_polygon, Polygon);
// H: tier=manual; sym=payload of 14 minimal records; requested=PolygonM; asserts=as row_point; note=not run: no result after 65 min (the ring classification of 14 symbolic records behind a typed read is solver-hard); the polygon types are covered by the identity and convert harnesses and by the columns of the other rows
rowh!(c06_t_row_polygonm, PolygonM);
// H: tier=manual; sym=payload of 14 minimal records; requested=PolygonZ; asserts=as row_point; note=not run: no result after 65 min (the ring classification of 14 symbolic records behind a typed read is solver-hard); the polygon types are covered by the identity and convert harnesses and by the columns of the other rows
rowh!(c06_t_row_polygonz, PolygonZ);
// H: tier=thorough; sym=payload of 14 minimal records; requested=Multipoint; asserts=as row_point
rowh!(c06_t_row_multipoint, Multipoint);
// H: tier=thorough; sym=payload of 14 minimal records; requested=Multipatch; asserts=as row_point
rowh!(c06_t_row_multipatch, Multipatch);

// ---- conversion matrix on values: S::try_from(Shape of variant T) ----------------------

fn mk_shape(code: i32) -> Shape {
    let mut m = minimal(code);
    sym_vertices(&mut m);
    assume_xy_not_nan(&m);
    match code {
        T_POINT => Point::build(&m).into(),
        T_POINTM => PointM::build(&m).into(),
        T_POINTZ => PointZ::build(&m).into(),
        T_POLYLINE => Polyline::build(&m).into(),
        T_POLYLINEM => PolylineM::build(&m).into(),
        T_POLYLINEZ => PolylineZ::build(&m).into(),
        T_MULTIPOINT => Multipoint::build(&m).into(),
        T_MULTIPOINTM => MultipointM::build(&m).into(),
        T_MULTIPOINTZ => MultipointZ::build(&m).into(),
        T_MULTIPATCH => Multipatch::build(&m).into(),
        T_POLYGON => polygon_from_parts::<Point>(&m).into(),
        T_POLYGONM => polygon_from_parts::<PointM>(&m).into(),
        T_POLYGONZ => polygon_from_parts::<PointZ>(&m).into(),
        _ => Shape::NullShape,
    }
}

/// For every variant T (concrete loop): S::try_from(shape of variant T) is Ok iff T == S,
/// else MismatchShapeType{requested: S, actual: T}.
fn convert_row<S: TShape>() {
    let mut k = 0;
    while k < 14 {
        let t = ALL_CODES[k];
        let sh = mk_shape(t);
        let r = S::try_from(sh);
        match &r {
            Ok(_) => assert!(t == S::CODE),
            Err(Error::MismatchShapeType { requested, actual }) => {
                assert!(t != S::CODE);
                assert!(*requested as i32 == S::CODE);
                assert!(*actual as i32 == t, "conversion error names another actual type than the value's variant");
            }
            Err(_) => assert!(false),
        }
        std::mem::forget(r);
        k += 1;
    }
    kani::cover!(true, "all 14 variants offered");
}
macro_rules! convh {
    ($name:ident, $T:ty) => {
        #[kani::proof]
        #[kani::unwind(22)]
        fn $name() {
            convert_row::<$T>();
        }
    };
}
// H: tier=quick; sym=coords of 13 minimal values + NullShape; requested=Point; asserts=try_from Ok iff same variant else MismatchShapeType{requested: Point, actual: variant's type}
convh!(c06_q_convert_point, Point);
// H: tier=quick; sym=coords of 13 minimal values + NullShape; requested=PolygonZ; asserts=as convert_point
convh!(c06_q_convert_polygonz, PolygonZ);
// H: tier=thorough; sym=coords of 13 minimal values + NullShape; requested=Multipatch; asserts=as convert_point
convh!(c06_t_convert_multipatch, Multipatch);
// H: tier=thorough; sym=coords of 13 minimal values + NullShape; requested=MultipointZ; asserts=as convert_point
convh!(c06_t_convert_multipointz, MultipointZ);
// H: tier=thorough; sym=coords of 13 minimal values + NullShape; requested=PolylineM; asserts=as convert_point
convh!(c06_t_convert_polylinem, PolylineM);

// ---- (iii) bulk conversion -------------------------------------------------------------

// H: tier=quick; sym=coordinates of 3 shapes; structure=all 8 assignments of {Point, PointZ} to 3 positions (concrete loop); asserts=convert_shapes_to_vec_of::<Point> is Ok with the 3 points in order iff all are Point; otherwise MismatchShapeType{requested: Point, actual: PointZ}
#[kani::proof]
#[kani::unwind(22)]
fn c06_q_bulk_conversion() {
    let mut mask = 0u8;
    while mask < 8 {
        let mut v: Vec<Shape> = Vec::with_capacity(3);
        let mut xs = [0.0f64; 3];
        let mut i = 0;
        while i < 3 {
            let x = any_f64_not_nan();
            xs[i] = x;
            if mask & (1 << i) == 0 {
                v.push(Shape::Point(Point::new(x, 1.0)));
            } else {
                v.push(Shape::PointZ(PointZ::new(x, 1.0, 2.0, 3.0)));
            }
            i += 1;
        }
        let r = convert_shapes_to_vec_of::<Point>(v);
        match &r {
            Ok(pts) => {
                assert!(mask == 0);
                assert!(pts.len() == 3);
                assert!(beq(pts[0].x, xs[0]) && beq(pts[1].x, xs[1]) && beq(pts[2].x, xs[2]));
            }
            Err(Error::MismatchShapeType { requested, actual }) => {
                assert!(mask != 0);
                assert!(*requested as i32 == T_POINT && *actual as i32 == T_POINTZ);
            }
            Err(_) => assert!(false),
        }
        std::mem::forget(r);
        mask += 1;
    }
    kani::cover!(true, "all 8 assignments converted");
}

// H: tier=quick; sym=coordinates of 3 shapes; structure=all 8 assignments of {Point, NullShape} to 3 positions (concrete loop); asserts=convert_shapes_to_vec_of::<Point> is Ok with the 3 points in order iff all are Point; otherwise MismatchShapeType{requested: Point, actual: NullShape} (a null element is neither skipped nor converted)
#[kani::proof]
#[kani::unwind(22)]
fn c06_q_bulk_conversion_null() {
    let mut mask = 0u8;
    while mask < 8 {
        let mut v: Vec<Shape> = Vec::with_capacity(3);
        let mut xs = [0.0f64; 3];
        let mut i = 0;
        while i < 3 {
            let x = any_f64_not_nan();
            xs[i] = x;
            if mask & (1 << i) == 0 {
                v.push(Shape::Point(Point::new(x, 1.0)));
            } else {
                v.push(Shape::NullShape);
            }
            i += 1;
        }
        let r = convert_shapes_to_vec_of::<Point>(v);
        match &r {
            Ok(pts) => {
                assert!(mask == 0);
                assert!(pts.len() == 3);
                assert!(beq(pts[0].x, xs[0]) && beq(pts[1].x, xs[1]) && beq(pts[2].x, xs[2]));
            }
            Err(Error::MismatchShapeType { requested, actual }) => {
                assert!(mask != 0);
                assert!(*requested as i32 == T_POINT && *actual as i32 == 0);
            }
            Err(_) => assert!(false),
        }
        std::mem::forget(r);
        mask += 1;
    }
    kani::cover!(true, "all 8 assignments converted");
}

//! C16 — (harnesses not written yet)

//! C16 — polygon and multipatch constructors close and orient rings, losing no vertex.
use crate::env::*;
use crate::model::*;
use crate::refcodec::*;
use shapefile::record::polygon::GenericPolygon;
use shapefile::record::traits::{GrowablePoint, HasXY, ShrinkablePoint};
use shapefile::*;

fn small_int() -> i32 {
    let v: i8 = kani::any();
    kani::assume(v >= -8 && v <= 8);
    v as i32
}

/// Twice the exact signed area in the orientation convention of the whitepaper (clockwise
/// positive), computed in integers.
fn shoelace2(xy: &[[i32; 2]], n: usize) -> i32 {
    let mut acc: i32 = 0;
    let mut i = 0;
    while i + 1 < n {
        acc += (xy[i + 1][0] - xy[i][0]) * (xy[i + 1][1] + xy[i][1]);
        i += 1;
    }
    acc
}

// ---- K: the orientation kernel alone --------------------------------------------------

/// `PolygonRing::from(Vec<Point>)` (the classification used when a polygon is read or
/// converted from a polyline): Outer iff the exact integer shoelace sum is >= 0.
fn kernel<const N: usize>() {
    let mut xy = [[0i32; 2]; N];
    let mut pts = Vec::with_capacity(N);
    let mut i = 0;
    while i < N {
        xy[i] = [small_int(), small_int()];
        pts.push(Point::new(xy[i][0] as f64, xy[i][1] as f64));
        i += 1;
    }
    let s2 = shoelace2(&xy, N);
    let ring = PolygonRing::from(pts);
    match &ring {
        PolygonRing::Outer(_) => assert!(s2 >= 0, "a counter-clockwise ring was classified as outer"),
        PolygonRing::Inner(_) => assert!(s2 < 0, "a clockwise (or zero-area) ring was classified as inner"),
    }
    kani::cover!(s2 > 0);
    kani::cover!(s2 < 0);
    std::mem::forget(ring);
}
// H: tier=quick; sym=4 vertices with integer coordinates in [-8,8]^2 (shoelace exact in f64); call=PolygonRing::from(Vec<Point>); asserts=Outer iff exact integer signed area (clockwise positive) >= 0
#[kani::proof]
#[kani::unwind(8)]
fn c16_q_kernel_4() {
    kernel::<4>();
}
// H: tier=thorough; sym=3 vertices, integer coordinates in [-8,8]^2; call=PolygonRing::from; asserts=as kernel_4
#[kani::proof]
#[kani::unwind(8)]
fn c16_t_kernel_3() {
    kernel::<3>();
}
// H: tier=manual; timeout=3000; sym=5 vertices, integer coordinates in [-8,8]^2; call=PolygonRing::from; asserts=as kernel_4; note=not run by any tier: the 3-interior-vertex orientation proofs did not finish in 900 s (FP shoelace vs integer oracle is solver-hard); untested at longer budgets
#[kani::proof]
#[kani::unwind(8)]
fn c16_t_kernel_5() {
    kernel::<5>();
}

// ---- constructors: closing + orientation + vertex preservation -------------------------

/// One ring through `GenericPolygon::<P>::with_rings`: interior vertices have symbolic small
/// integer X/Y (so that the orientation oracle is exact) and symbolic Z/M; the two end vertices
/// are pinned so that closedness is decided by constant folding:
///   closed: both ends are the concrete point (0,0,5,6);
///   open:   first.x = 1, last.x = 2 (other end coordinates symbolic small integers).
/// Asserts the whole statement for that ring.
fn one_ring<P, const N: usize>(declared_outer: bool, closed: bool)
where
    P: Pt + HasXY + ShrinkablePoint + GrowablePoint,
{
    let mut xy = [[0i32; 2]; 8];
    let mut zm = [[0.0f64; 2]; 8];
    let mut i = 0;
    while i < N {
        xy[i] = [small_int(), small_int()];
        zm[i] = [any_f64_not_nan(), any_f64_not_nan()];
        i += 1;
    }
    if closed {
        xy[0] = [0, 0];
        xy[N - 1] = [0, 0];
        zm[0] = [5.0, 6.0];
        zm[N - 1] = [5.0, 6.0];
    } else {
        xy[0][0] = 1;
        xy[N - 1][0] = 2;
    }
    let mut pts: Vec<P> = Vec::with_capacity(N + 1);
    let mut i = 0;
    while i < N {
        pts.push(P::mk(&[xy[i][0] as f64, xy[i][1] as f64, zm[i][0], zm[i][1]]));
        i += 1;
    }
    // the sequence the result must consist of: the input, closed by a copy of its first vertex
    let mut want = [[0.0f64; 4]; 8];
    let mut wxy = [[0i32; 2]; 8];
    let mut i = 0;
    while i < N {
        want[i] = pts[i].get();
        wxy[i] = xy[i];
        i += 1;
    }
    let mut wn = N;
    if !closed {
        want[N] = want[0];
        wxy[N] = xy[0];
        wn = N + 1;
    }
    let ring = if declared_outer { PolygonRing::Outer(pts) } else { PolygonRing::Inner(pts) };
    let poly = GenericPolygon::<P>::with_rings(vec![ring]);
    let rings = poly.rings();
    assert!(rings.len() == 1);
    let (is_outer, got) = match &rings[0] {
        PolygonRing::Outer(p) => (true, p),
        PolygonRing::Inner(p) => (false, p),
    };
    assert!(is_outer == declared_outer, "the declared role of the ring was changed");
    assert!(got.len() == wn, "a vertex was lost or added (beyond the closing copy)");
    assert!(got[0] == got[wn - 1], "ring is not closed");
    // kept or reversed as a whole, nothing altered
    let mut same = true;
    let mut rev = true;
    let mut i = 0;
    while i < wn {
        let g = got[i].get();
        let a = want[i];
        let b = want[wn - 1 - i];
        if !(beq(g[0], a[0]) && beq(g[1], a[1]) && beq(g[2], a[2]) && beq(g[3], a[3])) {
            same = false;
        }
        if !(beq(g[0], b[0]) && beq(g[1], b[1]) && beq(g[2], b[2]) && beq(g[3], b[3])) {
            rev = false;
        }
        i += 1;
    }
    assert!(same || rev, "the vertex sequence is neither the caller's nor its reverse");
    // orientation of the result by exact signed area
    let s2_in = shoelace2(&wxy, wn);
    let s2_out = if same { s2_in } else { -s2_in };
    if declared_outer {
        assert!(s2_out >= 0, "outer ring is not clockwise");
    } else {
        assert!(s2_out <= 0, "inner ring is not counter-clockwise");
    }
    // rebuilding from its own rings changes nothing when the area is not zero
    if s2_in != 0 {
        assert!(if (s2_in > 0) == declared_outer { same } else { rev }, "ring reversed although it already had the declared orientation (or kept although it had not)");
    }
    kani::cover!(s2_in > 0, "input clockwise");
    kani::cover!(s2_in < 0, "input counter-clockwise");
    std::mem::forget(poly);
}

macro_rules! ring {
    ($name:ident, $P:ty, $N:expr, $outer:expr, $closed:expr) => {
        #[kani::proof]
        #[kani::unwind(10)]
        fn $name() {
            one_ring::<$P, $N>($outer, $closed);
        }
    };
}
// H: tier=quick; unwind=10; sym=closed ring of 4 Points declared Outer: 2 interior vertices with integer XY in [-8,8]^2; ends concrete equal; call=Polygon::with_rings; asserts=closed, role kept, vertex sequence = input kept or reversed as a whole, outer clockwise by exact area, kept iff already clockwise (non-zero area)
ring!(c16_q_polygon_closed4_outer, Point, 4, true, true);
// H: tier=quick; unwind=10; sym=closed ring of 4 Points declared Inner; call=Polygon::with_rings; asserts=as above, inner counter-clockwise
ring!(c16_q_polygon_closed4_inner, Point, 4, false, true);
// H: tier=quick; unwind=10; sym=open ring of 3 PointM declared Inner (ends differ by concrete X), integer XY, symbolic non-NaN M; call=PolygonM::with_rings; asserts=one copy of the first vertex appended, then as above incl. M carried with its vertex
ring!(c16_q_polygonm_open3_inner, PointM, 3, false, false);
// H: tier=quick; unwind=10; sym=closed ring of 4 PointZ declared Outer, integer XY, symbolic non-NaN Z and M; call=PolygonZ::with_rings; asserts=as above incl. Z/M carried with their vertex
ring!(c16_q_polygonz_closed4_outer, PointZ, 4, true, true);
// H: tier=thorough; timeout=3000; unwind=10; sym=open ring of 4 Points declared Outer; call=Polygon::with_rings; asserts=as above
ring!(c16_t_polygon_open4_outer, Point, 4, true, false);
// H: tier=thorough; timeout=3000; unwind=10; sym=open ring of 4 PointM declared Inner; call=PolygonM::with_rings; asserts=as above
ring!(c16_t_polygonm_open4_inner, PointM, 4, false, false);
// H: tier=manual; timeout=5000; unwind=10; sym=closed ring of 5 Points declared Outer (3 interior vertices); call=Polygon::with_rings; asserts=as above; note=not run by any tier: the 3-interior-vertex orientation proofs did not finish in 900 s (FP shoelace vs integer oracle is solver-hard); untested at longer budgets
ring!(c16_t_polygon_closed5_outer, Point, 5, true, true);
// H: tier=manual; timeout=5000; unwind=10; sym=closed ring of 5 PointZ declared Inner; call=PolygonZ::with_rings; asserts=as above; note=not run by any tier: the 3-interior-vertex orientation proofs did not finish in 900 s (FP shoelace vs integer oracle is solver-hard); untested at longer budgets
ring!(c16_t_polygonz_closed5_inner, PointZ, 5, false, true);
// H: tier=thorough; timeout=3000; unwind=10; sym=open ring of 3 Points declared Outer; call=Polygon::with_rings; asserts=as above
ring!(c16_t_polygon_open3_outer, Point, 3, true, false);

// H: tier=quick; unwind=10; sym=Z/M of nothing (all concrete); rings=PolygonM ring whose first and last vertex share X/Y but differ in M only; asserts=not treated as closed: a copy of the first vertex (with ITS measure) is appended; no vertex altered
#[kani::proof]
#[kani::unwind(10)]
fn c16_q_polygonm_ends_differ_in_m_only() {
    let m_mid = any_f64_not_nan();
    let pts = vec![
        PointM::new(0.0, 0.0, 1.0),
        PointM::new(0.0, 4.0, m_mid),
        PointM::new(4.0, 4.0, 3.0),
        PointM::new(0.0, 0.0, 2.0),
    ];
    let poly = PolygonM::with_rings(vec![PolygonRing::Outer(pts)]);
    let r = poly.rings()[0].points();
    assert!(r.len() == 5, "ring whose ends differ only in M was taken for closed");
    assert!(r[0] == r[4]);
    // clockwise already: kept
    assert!(r[0].m == 1.0 && r[3].m == 2.0 && r[4].m == 1.0 && beq(r[1].m, m_mid) && r[2].m == 3.0);
    kani::cover!(true, "closed by a copy of the first vertex");
    std::mem::forget(poly);
}

// H: tier=quick; unwind=10; sym=one interior vertex (integer XY) in each of two rings; rings=[closed outer 4, open inner 3] through the polygon! macro; asserts=both closed, roles kept, each kept or reversed according to its exact area, ring order kept
#[kani::proof]
#[kani::unwind(10)]
fn c16_q_polygon_macro_two_rings() {
    let a = [small_int(), small_int()];
    let b = [small_int(), small_int()];
    let f = |v: i32| v as f64;
    // `shapefile::polygon!` expands to paths starting with `shapefile::`
    let poly = shapefile::polygon! {
        Outer((0.0, 0.0), (0.0, 3.0), (f(a[0]), f(a[1])), (0.0, 0.0)),
        Inner((1.0, 1.0), (f(b[0]), f(b[1])), (2.0, 1.0))
    };
    let rings = poly.rings();
    assert!(rings.len() == 2);
    assert!(matches!(rings[0], PolygonRing::Outer(_)) && matches!(rings[1], PolygonRing::Inner(_)));
    let o = rings[0].points();
    let i = rings[1].points();
    assert!(o.len() == 4 && i.len() == 4, "closed ring changed length / open ring not closed by one vertex");
    assert!(o[0] == o[3] && i[0] == i[3]);
    let s2o = shoelace2(&[[0, 0], [0, 3], a, [0, 0]], 4);
    if s2o > 0 {
        assert!(beq(o[1].x, 0.0) && beq(o[1].y, 3.0) && beq(o[2].x, f(a[0])), "clockwise outer ring was reversed");
    }
    if s2o < 0 {
        assert!(beq(o[1].x, f(a[0])) && beq(o[1].y, f(a[1])) && beq(o[2].y, 3.0), "counter-clockwise outer ring was not reversed");
    }
    let s2i = shoelace2(&[[1, 1], b, [2, 1], [1, 1]], 4);
    if s2i < 0 {
        assert!(beq(i[0].x, 1.0) && beq(i[1].x, f(b[0])) && beq(i[2].x, 2.0), "counter-clockwise inner ring was reversed");
    }
    if s2i > 0 {
        assert!(beq(i[1].x, 2.0) && beq(i[2].x, f(b[0])), "clockwise inner ring was not reversed");
    }
    kani::cover!(s2o < 0 && s2i > 0, "both rings had to be reversed");
    std::mem::forget(poly);
}

// ---- multipatch -----------------------------------------------------------------------

/// One patch of `kind` through Multipatch::with_parts; vertices symbolic non-NaN doubles;
/// `open`: ends differ by concrete X; otherwise ends concrete equal.
fn one_patch<const N: usize>(kind: i32, open: bool) {
    let mut m = Model::with_structure(T_MULTIPATCH, &[N]);
    m.pkind[0] = kind;
    sym_vertices(&mut m);
    if open {
        pin_open(&mut m, 0, 1.0, 2.0);
    } else {
        pin_closed(&mut m, 0, [1.0, 2.0, 3.0, 4.0]);
    }
    let mut i = 0;
    while i < m.nv {
        let mut c = 0;
        while c < 4 {
            kani::assume(m.v[i][c] == m.v[i][c]);
            c += 1;
        }
        i += 1;
    }
    let mp = Multipatch::build(&m);
    let got = mp.extract();
    assert!(got.nparts == 1 && got.pkind[0] == kind, "patch kind changed");
    let is_ring = kind >= 2;
    let want_n = if is_ring && open { N + 1 } else { N };
    assert!(got.nv == want_n, "ring patch not closed by exactly one vertex / strip or fan touched");
    let mut i = 0;
    while i < N {
        let mut c = 0;
        while c < 4 {
            assert!(beq(got.v[i][c], m.v[i][c]), "a patch vertex was altered or moved");
            c += 1;
        }
        i += 1;
    }
    if want_n == N + 1 {
        let mut c = 0;
        while c < 4 {
            assert!(beq(got.v[N][c], m.v[0][c]), "closing vertex is not a copy of the first");
            c += 1;
        }
    }
    kani::cover!(true, "patch built");
    std::mem::forget(mp);
}
macro_rules! patch {
    ($name:ident, $N:expr, $kind:expr, $open:expr) => {
        #[kani::proof]
        #[kani::unwind(10)]
        fn $name() {
            one_patch::<$N>($kind, $open);
        }
    };
}
// H: tier=quick; unwind=10; sym=3 vertices x 4 non-NaN f64; patch=open OuterRing; call=Multipatch::with_parts; asserts=closed by one copy of the first vertex, vertices untouched, kind kept
patch!(c16_q_multipatch_outer_open3, 3, 2, true);
// H: tier=quick; unwind=10; sym=3 vertices; patch=open InnerRing; asserts=as above
patch!(c16_q_multipatch_inner_open3, 3, 3, true);
// H: tier=quick; unwind=10; sym=3 vertices; patch=open FirstRing; asserts=as above
patch!(c16_q_multipatch_first_open3, 3, 4, true);
// H: tier=quick; unwind=10; sym=3 vertices; patch=open Ring; asserts=as above
patch!(c16_q_multipatch_ring_open3, 3, 5, true);
// H: tier=quick; unwind=10; sym=4 vertices; patch=closed Ring (ends concrete equal); asserts=left as it is
patch!(c16_q_multipatch_ring_closed4, 4, 5, false);
// H: tier=quick; unwind=10; sym=3 vertices; patch=TriangleStrip whose ends differ; asserts=left untouched (not closed)
patch!(c16_q_multipatch_strip_open3, 3, 0, true);
// H: tier=quick; unwind=10; sym=3 vertices; patch=TriangleFan whose ends differ; asserts=left untouched (not closed)
patch!(c16_q_multipatch_fan_open3, 3, 1, true);

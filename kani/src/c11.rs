//! C11 — (harnesses not written yet)

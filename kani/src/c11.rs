//! C11 — a crash at any point of writing never makes a reader see a wrong shape.
use crate::env::*;
use crate::model::*;
use crate::refcodec::*;
use shapefile::record::{ConcreteReadableShape, ReadableShape, WritableShape};
use shapefile::*;

fn same_point(p: &Point, q: &Point) -> bool {
    beq(p.x, q.x) && beq(p.y, q.y)
}

/// Iterate at most `max` items; every `Some(Ok)` at position i must be written[i]; stop at
/// the first error or end. Returns how many genuine shapes came back.
fn check_prefix<T: std::io::Read + std::io::Seek>(rd: &mut ShapeReader<T>, written: &[Point], max: usize) -> usize {
    let mut it = rd.iter_shapes_as::<Point>();
    let mut got = 0usize;
    let mut i = 0;
    let mut stop = false;
    while i < max && !stop {
        let item = it.next();
        match &item {
            Some(Ok(p)) => {
                assert!(i < written.len(), "reader returned more shapes than were written");
                assert!(same_point(p, &written[i]), "reader returned a shape that was not written at this position");
                got += 1;
            }
            _ => stop = true,
        }
        std::mem::forget(item);
        i += 1;
    }
    got
}

fn with_index<const N: usize>(shp: &CrashFile<N>, shx: &CrashFile<N>, hl: i32, written: &[Point]) {
    // Bytes 0..36 of the index header (file code, unused words, length, version, type) decide whether
    // the index can be opened and how many entries it has. They are proved to hold the only values the
    // writer ever puts there and then replaced by those constants, so that opening the index is
    // straight-line for the solver; the box (36..100) and the entries stay as the crash left them.
    let mut expect = [0u8; 100];
    enc_header(&mut expect, 100, T_POINT, &[0.0; 8]);
    let mut img = shx.persisted;
    let mut i = 0;
    while i < 36 {
        if i < 24 || i >= 28 {
            assert!(shx.persisted[i] == expect[i], "index header bytes outside the length field changed between the two header writes");
            img[i] = expect[i];
        }
        i += 1;
    }
    put_i32_be(&mut img, 24, hl);
    let mut xsrc = MemSource::with_len(&img, shx.plen);
    xsrc.sure = 100; // the caller only comes here with shx.plen >= 100
    let mut rd = ShapeReader::with_shx(MemSource::with_len(&shp.persisted, shp.plen), xsrc);
    match &mut rd {
        Ok(rd) => {
            let _ = check_prefix(rd, written, 3);
        }
        Err(_) => {}
    }
    std::mem::forget(rd);
}

/// Workload: write a, [finalize], write b, drop, through CrashFile destinations whose cuts
/// (operation index, byte inside that operation) are symbolic and independent.
pub fn crash<const N: usize>(mid_finalize: bool, with_shx: bool, max_ops: u32) {
    let a = Point::new(any_f64(), any_f64());
    let b = Point::new(any_f64(), any_f64());
    let written = [a, b];
    let cut_op: u32 = kani::any();
    let cut_bytes: usize = kani::any();
    kani::assume(cut_op <= max_ops && cut_bytes <= 20);
    let xcut_op: u32 = kani::any();
    let xcut_bytes: usize = kani::any();
    kani::assume(xcut_op <= max_ops && xcut_bytes <= 20);
    let mut shp = CrashFile::<N>::new(cut_op, cut_bytes);
    let mut shx = CrashFile::<N>::new(xcut_op, xcut_bytes);
    let mut flushes_after_mid = 0;
    {
        let mut w = if with_shx {
            ShapeWriter::with_shx(&mut shp, &mut shx)
        } else {
            ShapeWriter::new(&mut shp)
        };
        let r = w.write_shape(&a);
        std::mem::forget(r);
        if mid_finalize {
            let r = w.finalize();
            std::mem::forget(r);
        }
        let r = w.write_shape(&b);
        std::mem::forget(r);
    }
    assert!(shp.op < max_ops, "workload issues more operations than the cut range covers");
    // how many finalizes completed on the .shp before the crash (each ends with one flush)
    let completed = shp.flushed_before_cut;
    let durable = if mid_finalize {
        if completed >= 2 { 2 } else if completed == 1 { 1 } else { 0 }
    } else if completed >= 1 {
        2
    } else {
        0
    };
    // reader on the .shp alone
    let mut rd = ShapeReader::new(MemSource::with_len(&shp.persisted, shp.plen));
    match &mut rd {
        Ok(rd) => {
            let got = check_prefix(rd, &written, 3);
            assert!(got >= durable, "shapes committed by a completed finalize are no longer readable from the .shp");
        }
        Err(_) => assert!(durable == 0, "a file with a completed finalize cannot be opened"),
    }
    std::mem::forget(rd);
    let mut idx_witness = !with_shx;
    if with_shx && shx.plen >= 100 {
        // (Index files cut inside their first header write are refused at open: that is the
        // truncation case of C13, not repeated here.)
        // Case split on the index header's length field so that the number of index entries is a
        // constant inside each case (a symbolic entry count makes the index loop and its Vec
        // unbounded for the solver). The final `else` proves that a torn header write can only
        // leave one of the two values the writer ever stores there.
        let hl = get_i32_be(&shx.persisted, 24);
        if hl == 50 {
            with_index(&shp, &shx, 50, &written);
        } else if hl == 58 {
            with_index(&shp, &shx, 58, &written);
        } else if mid_finalize && hl == 54 {
            // the intermediate finalize committed one entry
            with_index(&shp, &shx, 54, &written);
        } else {
            assert!(false, "torn .shx header length is none of the values the writer ever stores there");
        }
        idx_witness = hl == 50 && shx.plen > 100;
    }
    kani::cover!(idx_witness, "placeholder index header on the medium, entries (partly) behind it (or no index in this harness)");
    let _ = flushes_after_mid;
    kani::cover!(completed >= 1, "a finalize completed before the cut");
    kani::cover!(completed == 0 && shp.plen > 100, "crash before any finalize completed, records partly on the medium");
}

// H: tier=quick; unwind=38; sym=2 Points; cut=(operation index 0..=70, byte 0..=20 inside it) on the .shp; workload=write a, write b, drop; reader=ShapeReader::new on the persisted image; asserts=every returned shape equals the one written at that position, never more than written, no panic; after a completed finalize both shapes come back
#[kani::proof]
#[kani::unwind(38)]
fn c11_q_shp_only_no_mid_finalize() {
    crash::<192>(false, false, 70);
}
// H: tier=quick; unwind=38; sym=2 Points; cut on the .shp (symbolic op, byte); workload=write a, finalize, write b, drop; asserts=as above + shape a stays readable once the first finalize completed, whatever is cut later (incl. inside the header rewrite)
#[kani::proof]
#[kani::unwind(38)]
fn c11_q_shp_only_mid_finalize() {
    crash::<192>(true, false, 90);
}
// H: tier=quick; unwind=38; timeout=1500; sym=2 Points; cuts=independent (op, byte) on .shp and on .shx (index cut after its first 100 bytes; earlier cuts = C13 truncation); workload=write a, write b, drop; readers=ShapeReader::new and ::with_shx on the persisted images; asserts=only genuine shapes at their positions, no panic; torn index header length is one of the two values the writer stores
#[kani::proof]
#[kani::unwind(38)]
fn c11_q_shp_shx_no_mid_finalize() {
    crash::<192>(false, true, 70);
}
// H: tier=thorough; unwind=38; sym=2 Points; cuts=independent on .shp and .shx; workload=write a, finalize, write b, drop; asserts=as above
#[kani::proof]
#[kani::unwind(38)]
fn c11_t_shp_shx_mid_finalize() {
    crash::<192>(true, true, 90);
}

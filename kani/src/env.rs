//! Environment stubs: in-memory files with fault / crash / short-transfer behaviour.
//!
//! Rules (DESIGN.md §2): fixed capacity, byte-by-byte stores and loads at the current
//! position (never `copy_from_slice`), every operation counted.
use std::io::{self, Read, Seek, SeekFrom, Write};

/// Growable in-memory file with fixed capacity `N`. Write + Seek + Read.
pub struct MemFile<const N: usize> {
    pub buf: [u8; N],
    pub len: usize,
    pub pos: usize,
    pub n_write: u32,
    pub n_seek: u32,
    pub n_flush: u32,
    pub n_read: u32,
    /// state observed at each of the first 8 flush() calls: (file length, bytes 24..28 as a
    /// big-endian i32 = header length field, position)
    pub flog: [(usize, i32, usize); 8],
}

impl<const N: usize> MemFile<N> {
    pub fn new() -> Self {
        Self {
            buf: [0u8; N],
            len: 0,
            pos: 0,
            n_write: 0,
            n_seek: 0,
            n_flush: 0,
            n_read: 0,
            flog: [(0, 0, 0); 8],
        }
    }
    pub fn ops(&self) -> u32 {
        self.n_write + self.n_seek + self.n_flush
    }
    pub fn rewind(&mut self) {
        self.pos = 0;
    }
}

fn seek_to(len: usize, pos: usize, to: SeekFrom) -> io::Result<usize> {
    let target: i64 = match to {
        SeekFrom::Start(n) => n as i64,
        SeekFrom::End(d) => len as i64 + d,
        SeekFrom::Current(d) => pos as i64 + d,
    };
    if target < 0 {
        return Err(io::Error::from(io::ErrorKind::InvalidInput));
    }
    Ok(target as usize)
}

impl<const N: usize> Write for MemFile<N> {
    fn write(&mut self, data: &[u8]) -> io::Result<usize> {
        self.n_write += 1;
        let mut i = 0;
        while i < data.len() {
            assert!(self.pos < N, "MemFile capacity exceeded");
            self.buf[self.pos] = data[i];
            self.pos += 1;
            i += 1;
        }
        if self.pos > self.len {
            self.len = self.pos;
        }
        Ok(data.len())
    }
    fn flush(&mut self) -> io::Result<()> {
        if (self.n_flush as usize) < 8 && N >= 28 {
            let h = i32::from_be_bytes([self.buf[24], self.buf[25], self.buf[26], self.buf[27]]);
            self.flog[self.n_flush as usize] = (self.len, h, self.pos);
        }
        self.n_flush += 1;
        Ok(())
    }
}

impl<const N: usize> Seek for MemFile<N> {
    fn seek(&mut self, to: SeekFrom) -> io::Result<u64> {
        self.n_seek += 1;
        self.pos = seek_to(self.len, self.pos, to)?;
        Ok(self.pos as u64)
    }
}

impl<const N: usize> Read for MemFile<N> {
    fn read(&mut self, out: &mut [u8]) -> io::Result<usize> {
        self.n_read += 1;
        let mut i = 0;
        while i < out.len() && self.pos < self.len {
            out[i] = self.buf[self.pos];
            self.pos += 1;
            i += 1;
        }
        Ok(i)
    }
}

/// Read + Seek over a borrowed byte image with an explicit logical length
/// (`len <= data.len()`), so a truncation length can be symbolic while the
/// backing array stays fixed. Reads past `len` return 0 bytes (=> UnexpectedEof
/// from `read_exact`). Counts operations and remembers the furthest byte touched.
pub struct MemSource<'a> {
    pub data: &'a [u8],
    pub len: usize,
    pub pos: usize,
    /// a `read_exact` ran into the end: the real position is now `len` (everything that was
    /// left has been consumed). Kept as a flag instead of moving `pos`, so that `pos` stays a
    /// constant for the solver on the paths that continue; cleared by the next seek.
    pub at_eof: bool,
    /// the first `sure` bytes are known (by the harness, concretely) to be below `len`: reads
    /// inside them cannot fail and are not made to depend on the symbolic length
    pub sure: usize,
    pub n_read: u32,
    pub n_seek: u32,
    pub consumed: usize,
}

impl<'a> MemSource<'a> {
    pub fn new(data: &'a [u8]) -> Self {
        Self {
            data,
            len: data.len(),
            pos: 0,
            at_eof: false,
            sure: 0,
            n_read: 0,
            n_seek: 0,
            consumed: 0,
        }
    }
    pub fn with_len(data: &'a [u8], len: usize) -> Self {
        assert!(len <= data.len());
        Self {
            data,
            len,
            pos: 0,
            at_eof: false,
            sure: 0,
            n_read: 0,
            n_seek: 0,
            consumed: 0,
        }
    }
}

impl Read for MemSource<'_> {
    fn read(&mut self, out: &mut [u8]) -> io::Result<usize> {
        self.n_read += 1;
        if self.at_eof {
            return Ok(0);
        }
        let mut i = 0;
        while i < out.len() && self.pos < self.len {
            out[i] = self.data[self.pos];
            self.pos += 1;
            i += 1;
        }
        self.consumed += i;
        Ok(i)
    }
    /// Native `read_buf`: std's default zero-fills the caller's whole buffer first, which for
    /// `std::io::copy` is an 8 KiB loop that no harness-wide unwind bound survives; a decoder
    /// that skips bytes through `io::copy(take(n), sink())` is then still analysed.
    #[cfg(kani)]
    fn read_buf(&mut self, mut cursor: std::io::BorrowedCursor<'_, u8>) -> io::Result<()> {
        self.n_read += 1;
        if self.at_eof {
            return Ok(());
        }
        let mut n = 0usize;
        let cap = cursor.capacity();
        while n < cap && self.pos < self.len {
            cursor.append(&[self.data[self.pos]]);
            self.pos += 1;
            n += 1;
        }
        self.consumed += n;
        Ok(())
    }
    /// std's `read_exact` contract for a source whose `read` hands out everything that is
    /// available: all-or-UnexpectedEof, the available bytes being consumed in the failing
    /// case. Written out because std's default loops on the count returned by `read`
    /// (symbolic when the source length is) and retries on `Interrupted`, neither of which
    /// CBMC can bound (see FaultFile::write_all).
    fn read_exact(&mut self, out: &mut [u8]) -> io::Result<()> {
        self.n_read += 1;
        let avail = if self.at_eof || self.pos >= self.len { 0 } else { self.len - self.pos };
        let inside_sure = self.pos + out.len() <= self.sure;
        if !inside_sure && avail < out.len() {
            self.at_eof = true;
            self.consumed += avail;
            // advance exactly as the successful branch does: `pos` is then the same on both paths
            // and stays a constant after CBMC merges them (the real position, `len`, is what
            // `at_eof` stands for)
            self.pos += out.len();
            return Err(io::Error::from(io::ErrorKind::UnexpectedEof));
        }
        // 4- and 8-byte reads (every read the library issues except the 20-byte header skip) are
        // written without a loop, so that a harness-wide unwind bound can be chosen for the
        // library's own loops alone
        let p = self.pos;
        let n = out.len();
        if n == 4 {
            out[0] = self.data[p];
            out[1] = self.data[p + 1];
            out[2] = self.data[p + 2];
            out[3] = self.data[p + 3];
        } else if n == 8 {
            out[0] = self.data[p];
            out[1] = self.data[p + 1];
            out[2] = self.data[p + 2];
            out[3] = self.data[p + 3];
            out[4] = self.data[p + 4];
            out[5] = self.data[p + 5];
            out[6] = self.data[p + 6];
            out[7] = self.data[p + 7];
        } else {
            let mut i = 0;
            while i < n {
                out[i] = self.data[p + i];
                i += 1;
            }
        }
        self.pos = p + n;
        self.consumed += n;
        Ok(())
    }
}

impl Seek for MemSource<'_> {
    fn seek(&mut self, to: SeekFrom) -> io::Result<u64> {
        self.n_seek += 1;
        let from = if self.at_eof { self.len } else { self.pos };
        self.at_eof = false;
        self.pos = seek_to(self.len, from, to)?;
        Ok(self.pos as u64)
    }
}

/// Write sink that only counts bytes.
pub struct CountSink {
    pub bytes: usize,
    pub calls: u32,
}
impl CountSink {
    pub fn new() -> Self {
        Self { bytes: 0, calls: 0 }
    }
}
impl Write for CountSink {
    fn write(&mut self, data: &[u8]) -> io::Result<usize> {
        self.calls += 1;
        self.bytes += data.len();
        Ok(data.len())
    }
    fn flush(&mut self) -> io::Result<()> {
        Ok(())
    }
}

/// Harness-global fault bookkeeping (read between API calls without sharing the files):
/// number of destination operations that reported an error, and the "destination works
/// again" switch.
pub static mut FAULTS_FIRED: u32 = 0;
pub static mut FAULTS_HEALED: bool = false;
/// operations (reads and seeks) issued so far to any FaultSource
pub static mut SRC_OPS: u32 = 0;
pub fn src_ops() -> u32 {
    unsafe { SRC_OPS }
}
pub fn faults_fired() -> u32 {
    unsafe { FAULTS_FIRED }
}
pub fn faults_heal() {
    unsafe { FAULTS_HEALED = true }
}
pub fn faults_reset() {
    unsafe {
        FAULTS_FIRED = 0;
        FAULTS_HEALED = false;
        SRC_OPS = 0;
    }
}

/// Destination that fails its `fail_at`-th operation (counting write, seek and flush
/// calls from 0). `persistent`: every operation from `fail_at` on fails, until `heal()`.
/// `short`: each `write` accepts a nondeterministic number of bytes in 1..=len
/// (supplied by the harness through `chunk`, a function returning the next choice).
pub struct FaultFile<const N: usize> {
    pub f: MemFile<N>,
    pub op: u32,
    pub fail_at: u32,
    pub persistent: bool,
    pub fired: bool,
    /// number of operations that reported an error so far
    pub n_fired: u32,
    pub healed: bool,
    pub short: bool,
    /// 0: symbolic count in 1..=offered; 1: one byte; 2: all but one byte; 3: half, rounded up
    pub short_policy: u8,
}

impl<const N: usize> FaultFile<N> {
    pub fn new(fail_at: u32, persistent: bool) -> Self {
        Self {
            f: MemFile::new(),
            op: 0,
            fail_at,
            persistent,
            fired: false,
            n_fired: 0,
            healed: false,
            short: false,
            short_policy: 0,
        }
    }
    pub fn never() -> Self {
        Self::new(u32::MAX, false)
    }
    pub fn heal(&mut self) {
        self.healed = true;
    }
    fn tick(&mut self) -> io::Result<()> {
        let n = self.op;
        self.op += 1;
        if self.healed || unsafe { FAULTS_HEALED } {
            return Ok(());
        }
        if n == self.fail_at || (self.persistent && n > self.fail_at) {
            self.fired = true;
            self.n_fired += 1;
            unsafe { FAULTS_FIRED += 1 };
            return Err(io::Error::from(io::ErrorKind::Other));
        }
        Ok(())
    }
}

#[cfg(kani)]
fn any_chunk(max: usize) -> usize {
    let c: usize = kani::any();
    kani::assume(c >= 1 && c <= max);
    c
}
#[cfg(not(kani))]
fn any_chunk(max: usize) -> usize {
    max
}

impl<const N: usize> FaultFile<N> {
    fn chunk(&self, offered: usize) -> usize {
        if !self.short || offered <= 1 {
            return offered;
        }
        match self.short_policy {
            1 => 1,
            2 => offered - 1,
            3 => (offered + 1) / 2,
            _ => any_chunk(offered),
        }
    }
}

impl<const N: usize> Write for FaultFile<N> {
    fn write(&mut self, data: &[u8]) -> io::Result<usize> {
        self.tick()?;
        let c = self.chunk(data.len());
        self.f.write(&data[..c])
    }
    /// Same contract as std's default `write_all` (repeat `write` until everything is
    /// accepted, stop at the first error), written out here because the default retries on
    /// `ErrorKind::Interrupted` and CBMC cannot fold the bit-packed `io::Error` kind test,
    /// which makes the default loop unbounded for the solver. One `write` = one operation.
    fn write_all(&mut self, data: &[u8]) -> io::Result<()> {
        // the accepted count is computed here rather than read back from the io::Result of
        // `write`: a count extracted from a Result that may also be Err is not constant-folded
        let mut off = 0;
        while off < data.len() {
            self.tick()?;
            let c = self.chunk(data.len() - off);
            let _ = self.f.write(&data[off..off + c]);
            off += c;
        }
        Ok(())
    }
    fn flush(&mut self) -> io::Result<()> {
        self.tick()?;
        self.f.flush()
    }
}
impl<const N: usize> Seek for FaultFile<N> {
    fn seek(&mut self, to: SeekFrom) -> io::Result<u64> {
        self.tick()?;
        self.f.seek(to)
    }
}

/// Destination modelling a crash: operations `0..cut_op` are persisted in full,
/// operation `cut_op` (if it is a write) persists only its first `cut_bytes` bytes,
/// later operations are lost. All operations report success to the writer (the
/// process dies later; what matters is what reached the medium). Seeks are always
/// tracked so that later (lost) writes do not corrupt the persisted image.
pub struct CrashFile<const N: usize> {
    pub persisted: [u8; N],
    pub plen: usize,
    pub pos: usize,
    pub vlen: usize,
    pub op: u32,
    pub cut_op: u32,
    pub cut_bytes: usize,
    /// number of flush() calls that completed before the cut
    pub flushed_before_cut: u32,
}

impl<const N: usize> CrashFile<N> {
    pub fn new(cut_op: u32, cut_bytes: usize) -> Self {
        Self {
            persisted: [0u8; N],
            plen: 0,
            pos: 0,
            vlen: 0,
            op: 0,
            cut_op,
            cut_bytes,
            flushed_before_cut: 0,
        }
    }
}

impl<const N: usize> Write for CrashFile<N> {
    fn write(&mut self, data: &[u8]) -> io::Result<usize> {
        let n = self.op;
        self.op += 1;
        let keep = if n < self.cut_op {
            data.len()
        } else if n == self.cut_op {
            if self.cut_bytes < data.len() {
                self.cut_bytes
            } else {
                data.len()
            }
        } else {
            0
        };
        let mut i = 0;
        while i < data.len() {
            assert!(self.pos < N, "CrashFile capacity exceeded");
            if i < keep {
                self.persisted[self.pos] = data[i];
                if self.pos + 1 > self.plen {
                    self.plen = self.pos + 1;
                }
            }
            self.pos += 1;
            i += 1;
        }
        if self.pos > self.vlen {
            self.vlen = self.pos;
        }
        Ok(data.len())
    }
    fn flush(&mut self) -> io::Result<()> {
        let n = self.op;
        self.op += 1;
        if n < self.cut_op {
            self.flushed_before_cut += 1;
        }
        Ok(())
    }
}
impl<const N: usize> Seek for CrashFile<N> {
    fn seek(&mut self, to: SeekFrom) -> io::Result<u64> {
        self.op += 1;
        self.pos = seek_to(self.vlen, self.pos, to)?;
        Ok(self.pos as u64)
    }
}

/// Source that fails its `fail_at`-th operation (reads and seeks counted from 0) and
/// optionally returns short reads (nondeterministic count in 1..=requested).
pub struct FaultSource<'a> {
    pub s: MemSource<'a>,
    pub op: u32,
    /// operations with index below this concrete number never fail (and are not compared with
    /// the symbolic `fail_at`, which keeps them straight-line for the solver)
    pub armed_after: u32,
    pub fail_at: u32,
    pub fired: bool,
    pub short: bool,
    /// as FaultFile::short_policy
    pub short_policy: u8,
    /// concrete alternative to `fail_at`: the seek with this index (counting seeks only) fails
    pub fail_seek_no: u32,
    pub n_seeks: u32,
}
impl<'a> FaultSource<'a> {
    pub fn new(data: &'a [u8], fail_at: u32, short: bool) -> Self {
        Self {
            s: MemSource::new(data),
            op: 0,
            armed_after: 0,
            fail_at,
            fired: false,
            short,
            short_policy: 0,
            fail_seek_no: u32::MAX,
            n_seeks: 0,
        }
    }
    fn tick(&mut self) -> io::Result<()> {
        let n = self.op;
        self.op += 1;
        unsafe { SRC_OPS += 1 };
        if n < self.armed_after {
            return Ok(());
        }
        // sticky: once the source has failed every later operation fails too (a broken device);
        // what a reader gets from a source after an error is not part of any claim
        if n >= self.fail_at {
            self.fired = true;
            unsafe { FAULTS_FIRED += 1 };
            return Err(io::Error::from(io::ErrorKind::Other));
        }
        Ok(())
    }
    fn chunk(&self, want: usize) -> usize {
        if !self.short || want <= 1 {
            return want;
        }
        match self.short_policy {
            1 => 1,
            2 => want - 1,
            3 => (want + 1) / 2,
            _ => any_chunk(want),
        }
    }
}
impl Read for FaultSource<'_> {
    fn read(&mut self, out: &mut [u8]) -> io::Result<usize> {
        self.tick()?;
        let c = self.chunk(out.len());
        self.s.read(&mut out[..c])
    }
    /// std's contract for `read_exact`, without the retry on `Interrupted` (see
    /// `FaultFile::write_all`).
    fn read_exact(&mut self, out: &mut [u8]) -> io::Result<()> {
        let mut off = 0;
        while off < out.len() {
            let want = out.len() - off;
            if let Err(e) = self.tick() {
                // advance as the successful path would, so that the position is the same constant
                // on both paths once CBMC merges them (nothing is read from a failed source again)
                self.s.pos += want;
                return Err(e);
            }
            let c0 = self.chunk(want);
            let avail = self.s.len - if self.s.pos < self.s.len { self.s.pos } else { self.s.len };
            let c = if c0 < avail { c0 } else { avail };
            if c == 0 {
                return Err(io::Error::from(io::ErrorKind::UnexpectedEof));
            }
            let _ = self.s.read(&mut out[off..off + c]);
            off += c;
        }
        Ok(())
    }
}
impl Seek for FaultSource<'_> {
    fn seek(&mut self, to: SeekFrom) -> io::Result<u64> {
        let k = self.n_seeks;
        self.n_seeks += 1;
        if k == self.fail_seek_no {
            self.fired = true;
            unsafe { FAULTS_FIRED += 1 };
            return Err(io::Error::from(io::ErrorKind::Other));
        }
        self.tick()?;
        self.s.seek(to)
    }
}

/// Handle that lets the harness keep looking at a destination while the writer owns a
/// `Write + Seek` value: it forwards to the file behind a raw pointer.
pub struct Shared<F>(pub *mut F);
impl<F> Shared<F> {
    pub fn new(f: &mut F) -> Self {
        Shared(f as *mut F)
    }
}
impl<F: Write> Write for Shared<F> {
    fn write(&mut self, data: &[u8]) -> io::Result<usize> {
        unsafe { (*self.0).write(data) }
    }
    fn flush(&mut self) -> io::Result<()> {
        unsafe { (*self.0).flush() }
    }
}
impl<F: Seek> Seek for Shared<F> {
    fn seek(&mut self, to: SeekFrom) -> io::Result<u64> {
        unsafe { (*self.0).seek(to) }
    }
}

/// Byte-wise equality of two images over their full capacity (nested loops so that no
/// loop exceeds 32 iterations), plus equal logical lengths.
pub fn same_image<const N: usize>(a: &MemFile<N>, b: &MemFile<N>) -> bool {
    if a.len != b.len {
        return false;
    }
    let mut ok = true;
    let mut blk = 0;
    while blk * 32 < N {
        let mut j = 0;
        while j < 32 {
            let i = blk * 32 + j;
            if i < N && a.buf[i] != b.buf[i] {
                ok = false;
            }
            j += 1;
        }
        blk += 1;
    }
    ok
}

// ---------------------------------------------------------------- allocation model (C07, C17)

/// Model of `Vec::<T>::with_capacity` used through `#[kani::stub]`: panics exactly when std
/// does (capacity overflow) and returns an empty vector that owns a concrete 16-element buffer
/// (more than any harness input can fill), so that no symbolic-size allocation reaches CBMC.
/// One monomorphic instance per element type, which is how a failing check is attributed to
/// its call site. (No `static mut` bookkeeping in here: reading and writing a static inside the
/// stub made Kani report spurious pointer failures in the pushes that follow.)
pub fn with_capacity_model<T>(cap: usize) -> Vec<T> {
    let sz = core::mem::size_of::<T>();
    assert!(sz == 0 || cap <= (isize::MAX as usize) / sz, "capacity overflow: Vec::with_capacity from an unchecked count");
    let mut v = Vec::new();
    v.reserve_exact(16);
    v
}

/// Largest input any C17 harness hands to the reader (bytes).
pub const C17_MAX_INPUT: usize = 216;

/// As `with_capacity_model`, plus the C17 bound: a single pre-sizing request may not exceed
/// 64 x (input bytes) + 4096. The input size is taken as the largest one used by the C17
/// harnesses, so the bound applied here is never stricter than the property's.
pub fn with_capacity_model_bounded<T>(cap: usize) -> Vec<T> {
    let sz = core::mem::size_of::<T>();
    assert!(sz == 0 || cap <= (isize::MAX as usize) / sz, "capacity overflow: Vec::with_capacity from an unchecked count");
    assert!(
        cap * sz <= 64 * C17_MAX_INPUT + 4096,
        "memory requested out of proportion to the input (more than 64 x input bytes + 4096)"
    );
    let mut v = Vec::new();
    v.reserve_exact(16);
    v
}

/// Model of `vec![elem; n]` (`alloc::vec::from_elem`) for the C17 harnesses: the request must
/// stay within the C17 bound; larger element counts than any harness input can back are then cut
/// (`assume`), so the model never hands out a vector shorter than asked for.
#[cfg(kani)]
pub fn from_elem_model_bounded<T: Clone>(elem: T, n: usize) -> Vec<T> {
    let sz = core::mem::size_of::<T>();
    assert!(sz == 0 || n <= (isize::MAX as usize) / sz, "capacity overflow: vec![x; n] from an unchecked count");
    assert!(
        n * sz <= 64 * C17_MAX_INPUT + 4096,
        "memory requested out of proportion to the input (more than 64 x input bytes + 4096)"
    );
    kani::assume(n <= 16);
    let mut v = Vec::new();
    v.reserve_exact(16);
    let mut i = 0;
    while i < n {
        v.push(elem.clone());
        i += 1;
    }
    v
}

// Native side of C17 (concrete playback cannot apply stubs): when a C17 counterexample is replayed
// natively, a counting global allocator (lib.rs, test builds with feature c17 only) records the
// largest single request made while the harness body runs, and the harness ends with the same
// bound the models assert under Kani.
#[cfg(all(test, feature = "c17"))]
pub mod native_alloc {
    use std::alloc::{GlobalAlloc, Layout, System};
    use std::sync::atomic::{AtomicUsize, Ordering};
    pub static MAX_REQ: AtomicUsize = AtomicUsize::new(0);
    pub struct Counting;
    unsafe impl GlobalAlloc for Counting {
        unsafe fn alloc(&self, l: Layout) -> *mut u8 {
            MAX_REQ.fetch_max(l.size(), Ordering::SeqCst);
            System.alloc(l)
        }
        unsafe fn alloc_zeroed(&self, l: Layout) -> *mut u8 {
            MAX_REQ.fetch_max(l.size(), Ordering::SeqCst);
            System.alloc_zeroed(l)
        }
        unsafe fn realloc(&self, p: *mut u8, l: Layout, n: usize) -> *mut u8 {
            MAX_REQ.fetch_max(n, Ordering::SeqCst);
            System.realloc(p, l, n)
        }
        unsafe fn dealloc(&self, p: *mut u8, l: Layout) {
            System.dealloc(p, l)
        }
    }
}
/// Start of a C17 harness body (no-op under Kani).
pub fn c17_native_reset() {
    #[cfg(all(test, feature = "c17"))]
    native_alloc::MAX_REQ.store(0, std::sync::atomic::Ordering::SeqCst);
}
/// End of a C17 harness body (no-op under Kani): the bound on the largest single request.
pub fn c17_native_check() {
    #[cfg(all(test, feature = "c17"))]
    {
        let m = native_alloc::MAX_REQ.load(std::sync::atomic::Ordering::SeqCst);
        assert!(
            m <= 64 * C17_MAX_INPUT + 4096,
            "memory requested out of proportion to the input: {} bytes in one request",
            m
        );
    }
}

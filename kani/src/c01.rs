//! C01 — write-then-read round trip preserves every shape exactly.
use crate::env::*;
use crate::model::*;
use crate::refcodec::*;
use shapefile::record::{ConcreteReadableShape, ReadableShape, WritableShape};
use shapefile::*;

/// Compare what was read (`got`) with what was built (`built`) per the statement of C01.
pub fn assert_same_shape<S: TShape>(built: &Model, got: &Model) {
    assert!(same_structure(built, got));
    let m_rule = if !may_have_m(S::CODE) {
        0
    } else if S::MULTI {
        2
    } else {
        1
    };
    assert!(same_vertices(built, got, has_z(S::CODE), m_rule));
    if S::MULTI {
        assert!(same_bbox(built, got, 0, 4));
        if has_z(S::CODE) {
            assert!(same_bbox(built, got, 4, 6));
        }
        if may_have_m(S::CODE) {
            assert!(same_bbox(built, got, 6, 8));
        }
    }
}

/// Serialise `s` as the writer frames it (type code + content), read it back typed and
/// generically, compare with `built`.
pub fn roundtrip<S: TShape, const N: usize>(s: &S, built: &Model) {
    let mut f = MemFile::<N>::new();
    put_i32_le(&mut f.buf, 0, S::CODE);
    f.pos = 4;
    f.len = 4;
    let w = s.write_to(&mut f);
    assert!(w.is_ok());
    std::mem::forget(w);
    let total = f.len;
    // typed
    let mut src = MemSource::with_len(&f.buf, total);
    let r = S::read_from(&mut src, total as i32);
    match &r {
        Ok(t) => {
            let got = t.extract();
            assert_same_shape::<S>(built, &got);
            assert!(src.pos == total);
        }
        Err(_) => assert!(false, "typed read failed"),
    }
    std::mem::forget(r);
    // generic; inspected by reference: moving an enum payload out of a Result is
    // mis-modelled by CBMC's field-sensitive union handling (spurious counterexamples)
    let mut src = MemSource::with_len(&f.buf, total);
    let r = Shape::read_from(&mut src, total as i32);
    match &r {
        Ok(sh) => match S::of_shape(sh) {
            Some(t) => {
                let got = t.extract();
                assert_same_shape::<S>(built, &got);
                assert!(src.pos == total);
                kani::cover!(true, "typed and generic reads returned a shape");
            }
            None => assert!(false, "generic read gave another variant"),
        },
        Err(_) => assert!(false, "generic read failed"),
    }
    std::mem::forget(r);
}

/// (a) content: constructor -> write_to -> typed read and generic read; every coordinate
/// symbolic (X, Y non-NaN). `open` lists ring parts made open by concrete first/last X,
/// `closed` ring parts whose end vertices are the concrete value (1,2,3,4).
pub fn content<S: TShape, const N: usize>(parts: &[usize], kinds: &[i32], open: &[usize], closed: &[usize]) {
    let mut m = Model::with_structure(S::CODE, parts);
    let mut i = 0;
    while i < kinds.len() {
        m.pkind[i] = kinds[i];
        i += 1;
    }
    sym_vertices(&mut m);
    let mut i = 0;
    while i < open.len() {
        pin_open(&mut m, open[i], 1.0, 2.0);
        i += 1;
    }
    let mut i = 0;
    while i < closed.len() {
        pin_closed(&mut m, closed[i], [1.0, 2.0, 3.0, 4.0]);
        i += 1;
    }
    assume_xy_not_nan(&m);
    let s = S::build(&m);
    let built = s.extract();
    roundtrip::<S, N>(&s, &built);
    // witness that the normalisation rule was exercised (trivially true for types without M)
    let k = if m.nv >= 2 { m.nv - 2 } else { 0 };
    kani::cover!(
        !(may_have_m(S::CODE) && S::MULTI) || m.v[k][3] <= shapefile::NO_DATA || m.v[k][3] != m.v[k][3],
        "a no-data or NaN measure was written (or the type has no normalised measures)"
    );
}

// ---- quick content cells (one per type) ------------------------------------------------
// H: tier=quick; unwind=140; sym=2 f64 (X,Y non-NaN); asserts=typed+generic read bit-identical
#[kani::proof]
#[kani::unwind(140)]
pub(crate) fn c01_q_content_point() {
    content::<Point, 64>(&[], &[], &[], &[]);
}
// H: tier=quick; unwind=140; sym=3 f64; asserts=typed+generic read bit-identical incl. M (no normalisation for single points)
#[kani::proof]
#[kani::unwind(140)]
pub(crate) fn c01_q_content_pointm() {
    content::<PointM, 64>(&[], &[], &[], &[]);
}
// H: tier=quick; unwind=140; sym=4 f64; asserts=typed+generic read bit-identical incl. Z and M
#[kani::proof]
#[kani::unwind(140)]
pub(crate) fn c01_q_content_pointz() {
    content::<PointZ, 64>(&[], &[], &[], &[]);
}
// H: tier=quick; unwind=140; sym=3 vertices x 2 f64; asserts=count, XY bits, box bits
#[kani::proof]
#[kani::unwind(140)]
pub(crate) fn c01_q_content_multipoint_3() {
    content::<Multipoint, 128>(&[3], &[], &[], &[]);
}
// H: tier=quick; unwind=140; sym=2 vertices x 3 f64; asserts=count, XY bits, M normalised, box bits incl. M range
#[kani::proof]
#[kani::unwind(140)]
pub(crate) fn c01_q_content_multipointm_2() {
    content::<MultipointM, 128>(&[2], &[], &[], &[]);
}
// H: tier=quick; unwind=140; sym=3 vertices x 4 f64; asserts=count, XYZ bits, M normalised, box bits incl. Z and M range
#[kani::proof]
#[kani::unwind(140)]
pub(crate) fn c01_q_content_multipointz_3() {
    content::<MultipointZ, 256>(&[3], &[], &[], &[]);
}
// H: tier=quick; unwind=140; sym=5 vertices x 2 f64 in parts [2,3]; asserts=part structure, XY bits, box bits
#[kani::proof]
#[kani::unwind(140)]
pub(crate) fn c01_q_content_polyline_2_3() {
    content::<Polyline, 192>(&[2, 3], &[], &[], &[]);
}
// H: tier=quick; unwind=140; sym=5 vertices x 3 f64 in parts [2,3]; asserts=part structure, XY bits, M normalised, box bits
#[kani::proof]
#[kani::unwind(140)]
pub(crate) fn c01_q_content_polylinem_2_3() {
    content::<PolylineM, 256>(&[2, 3], &[], &[], &[]);
}
// H: tier=quick; unwind=140; sym=5 vertices x 4 f64 in parts [2,3]; asserts=part structure, XYZ bits, M normalised, box bits
#[kani::proof]
#[kani::unwind(140)]
pub(crate) fn c01_q_content_polylinez_2_3() {
    content::<PolylineZ, 320>(&[2, 3], &[], &[], &[]);
}
// H: tier=quick; unwind=140; sym=7 vertices x 4 f64, patches [triangle strip 3, outer ring 4 with concrete equal end vertices]; asserts=patch structure and kinds, XYZ bits, M normalised, box bits
#[kani::proof]
#[kani::unwind(140)]
pub(crate) fn c01_q_content_multipatch_strip3_outer4() {
    content::<Multipatch, 400>(&[3, 4], &[0, 2], &[], &[1]);
}
// H: tier=quick; unwind=140; sym=6 vertices x 4 f64, patches [triangle fan 3, ring 3 open by concrete end X -> closed by the constructor to 4]; asserts=patch structure and kinds, XYZ bits incl. the appended copy, M normalised, box bits
#[kani::proof]
#[kani::unwind(140)]
pub(crate) fn c01_q_content_multipatch_fan3_ring3open() {
    content::<Multipatch, 400>(&[3, 3], &[1, 5], &[1], &[]);
}

/// Polygons. X/Y of every vertex are concrete (rings taken from a small table, both
/// orientations, open and closed), Z and M symbolic except on the two end vertices of a
/// closed ring. The declared role must survive because the table rings have non-zero area.
pub fn polygon_fixed_xy<S: TShape, const N: usize>(rings: &[(&[[f64; 2]], i32)], closed_by_value: bool) {
    let mut lens = [0usize; MAXP];
    let mut i = 0;
    while i < rings.len() {
        lens[i] = rings[i].0.len();
        i += 1;
    }
    let mut m = Model::with_structure(S::CODE, &lens[..rings.len()]);
    sym_vertices(&mut m);
    let mut i = 0;
    while i < rings.len() {
        let s = m.part_start(i);
        m.pkind[i] = rings[i].1;
        let mut j = 0;
        while j < rings[i].0.len() {
            m.v[s + j][0] = rings[i].0[j][0];
            m.v[s + j][1] = rings[i].0[j][1];
            j += 1;
        }
        if closed_by_value {
            // first XY == last XY in the table; make Z and M of the end vertices concrete too
            let e = s + rings[i].0.len() - 1;
            m.v[s][2] = 5.0;
            m.v[s][3] = 6.0;
            m.v[e][2] = 5.0;
            m.v[e][3] = 6.0;
        }
        i += 1;
    }
    let s = S::build(&m);
    let built = s.extract();
    // the constructor must have kept the declared roles (C16 checks the vertex order)
    let mut i = 0;
    while i < rings.len() {
        assert!(built.pkind[i] == rings[i].1);
        i += 1;
    }
    roundtrip::<S, N>(&s, &built);
}

const SQ_CW: [[f64; 2]; 5] = [[0.0, 0.0], [0.0, 4.0], [4.0, 4.0], [4.0, 0.0], [0.0, 0.0]];
const SQ_CCW: [[f64; 2]; 5] = [[1.0, 1.0], [3.0, 1.0], [3.0, 3.0], [1.0, 3.0], [1.0, 1.0]];
const TRI_OPEN_CCW: [[f64; 2]; 3] = [[10.0, 0.0], [12.0, 0.0], [11.0, 2.0]];

// H: tier=quick; unwind=140; sym=Z,M of interior vertices (2 rings x 3 interior vertices); concrete XY: clockwise square declared outer + counter-clockwise square declared inner, closed; asserts=ring roles survive, structure, XYZ bits, M normalised, box bits
#[kani::proof]
#[kani::unwind(140)]
pub(crate) fn c01_q_content_polygonz_outer_inner() {
    polygon_fixed_xy::<PolygonZ, 512>(&[(&SQ_CW, 0), (&SQ_CCW, 1)], true);
}
// H: tier=quick; unwind=140; sym=M of interior vertices; concrete XY: counter-clockwise square declared OUTER (constructor must reverse it) ; asserts=role outer survives the round trip, structure, XY bits, M normalised
#[kani::proof]
#[kani::unwind(140)]
pub(crate) fn c01_q_content_polygonm_reversed() {
    polygon_fixed_xy::<PolygonM, 320>(&[(&SQ_CCW, 0)], true);
}
// H: tier=quick; unwind=140; sym=none beyond structure (Polygon has only XY); concrete XY: clockwise square outer + open counter-clockwise triangle declared outer (closed and reversed by the constructor); asserts=roles survive, structure, XY bits, box bits
#[kani::proof]
#[kani::unwind(140)]
pub(crate) fn c01_q_content_polygon_two_outers_one_open() {
    polygon_fixed_xy::<Polygon, 320>(&[(&SQ_CW, 0), (&TRI_OPEN_CCW, 0)], false);
}

// ---- (b) framing through the real ShapeWriter and ShapeReader -------------------------

/// Routes: bit 0 = generic (Shape) vs typed; bit 1 = random access vs iteration;
/// bit 2 = reader gets the .shx.
pub fn framing<S: TShape, const N: usize>(structs: &[&[usize]], route: u8) {
    let n = structs.len();
    let mut models = [Model::empty(S::CODE); MAXR];
    let mut shp = MemFile::<N>::new();
    let mut shx = MemFile::<N>::new();
    {
        let mut w = ShapeWriter::with_shx(&mut shp, &mut shx);
        let mut i = 0;
        while i < n {
            let mut m = Model::with_structure(S::CODE, structs[i]);
            sym_vertices(&mut m);
            assume_xy_not_nan(&m);
            let s = S::build(&m);
            models[i] = s.extract();
            let r = w.write_shape(&s);
            assert!(r.is_ok());
            std::mem::forget(r);
            i += 1;
        }
    }
    let generic = route & 1 != 0;
    let random = route & 2 != 0;
    let with_shx = route & 4 != 0;
    let shp_src = MemSource::with_len(&shp.buf, shp.len);
    let mut rd = if with_shx {
        ShapeReader::with_shx(shp_src, MemSource::with_len(&shx.buf, shx.len))
    } else {
        ShapeReader::new(shp_src)
    };
    match &mut rd {
        Ok(rd) => {
            if random {
                let mut i = 0;
                while i < n {
                    if generic {
                        let item = rd.read_nth_shape(i);
                        match &item {
                            Some(Ok(sh)) => match S::of_shape(sh) {
                                Some(t) => assert_same_shape::<S>(&models[i], &t.extract()),
                                None => assert!(false, "wrong variant"),
                            },
                            _ => assert!(false, "read_nth_shape failed"),
                        }
                        std::mem::forget(item);
                    } else {
                        let item = rd.read_nth_shape_as::<S>(i);
                        match &item {
                            Some(Ok(t)) => assert_same_shape::<S>(&models[i], &t.extract()),
                            _ => assert!(false, "read_nth_shape_as failed"),
                        }
                        std::mem::forget(item);
                    }
                    i += 1;
                }
                let item = rd.read_nth_shape_as::<S>(n);
                assert!(item.is_none());
                std::mem::forget(item);
            } else if generic {
                let mut it = rd.iter_shapes();
                let mut i = 0;
                while i < n {
                    let item = it.next();
                    match &item {
                        Some(Ok(sh)) => match S::of_shape(sh) {
                            Some(t) => assert_same_shape::<S>(&models[i], &t.extract()),
                            None => assert!(false, "wrong variant"),
                        },
                        _ => assert!(false, "iteration ended early or failed"),
                    }
                    std::mem::forget(item);
                    i += 1;
                }
                let item = it.next();
                assert!(item.is_none());
                std::mem::forget(item);
            } else {
                let mut it = rd.iter_shapes_as::<S>();
                let mut i = 0;
                while i < n {
                    let item = it.next();
                    match &item {
                        Some(Ok(t)) => assert_same_shape::<S>(&models[i], &t.extract()),
                        _ => assert!(false, "iteration ended early or failed"),
                    }
                    std::mem::forget(item);
                    i += 1;
                }
                let item = it.next();
                assert!(item.is_none());
                std::mem::forget(item);
            }
        }
        Err(_) => assert!(false, "reader could not be opened"),
    }
    kani::cover!(true, "every record was read back");
    std::mem::forget(rd);
}

// H: tier=quick; unwind=140; sym=3 PointZ x 4 f64; route=typed, iterate, no shx; asserts=3 shapes in order, bit-identical, then None
#[kani::proof]
#[kani::unwind(140)]
pub(crate) fn c01_q_framing_pointz3_typed_iter_noshx() {
    framing::<PointZ, 240>(&[&[], &[], &[]], 0);
}
// H: tier=quick; unwind=140; sym=2 PointM x 3 f64; route=generic, iterate, with shx; asserts=2 shapes in order, bit-identical, then None
#[kani::proof]
#[kani::unwind(140)]
pub(crate) fn c01_q_framing_pointm2_generic_iter_shx() {
    framing::<PointM, 200>(&[&[], &[]], 1 | 4);
}
// H: tier=quick; unwind=140; sym=3 Point x 2 f64; route=generic, random access, with shx; asserts=read_nth_shape(i) == i-th written for i<3, None at 3
#[kani::proof]
#[kani::unwind(140)]
pub(crate) fn c01_q_framing_point3_generic_nth_shx() {
    framing::<Point, 200>(&[&[], &[], &[]], 1 | 2 | 4);
}
// H: tier=quick; unwind=140; sym=Polyline records [2] then [3] points (different sizes) x 2 f64; route=typed, iterate, with shx; asserts=2 shapes in order, structure and bits
#[kani::proof]
#[kani::unwind(140)]
pub(crate) fn c01_q_framing_polyline_2_then_3_typed_iter_shx() {
    framing::<Polyline, 320>(&[&[2], &[3]], 4);
}
// H: tier=quick; unwind=140; sym=Polyline records [2] then [3] points x 2 f64; route=typed, random access, with shx; asserts=read_nth_shape_as(i) equals i-th written
#[kani::proof]
#[kani::unwind(140)]
pub(crate) fn c01_q_framing_polyline_2_then_3_typed_nth_shx() {
    framing::<Polyline, 320>(&[&[2], &[3]], 2 | 4);
}
// H: tier=quick; unwind=140; sym=Polyline records [3] then [2] points x 2 f64; route=typed, iterate, no shx; asserts=2 shapes in order
#[kani::proof]
#[kani::unwind(140)]
pub(crate) fn c01_q_framing_polyline_3_then_2_typed_iter_noshx() {
    framing::<Polyline, 320>(&[&[3], &[2]], 0);
}
// H: tier=quick; unwind=140; sym=2 PointZ x 4 f64; route=generic, iterate, no shx; asserts=2 shapes in order, bit-identical, then None
#[kani::proof]
#[kani::unwind(140)]
pub(crate) fn c01_q_framing_pointz2_generic_iter_noshx() {
    framing::<PointZ, 200>(&[&[], &[]], 1);
}

//! C03 — (harnesses not written yet)

//! C03 — reader decodes every spec-conformant .shp, including foreign layouts.
use crate::c13::assert_read_equals_stored;
use crate::env::*;
use crate::model::*;
use crate::refcodec::*;
use shapefile::record::{ConcreteReadableShape, ReadableShape, WritableShape};
use shapefile::*;

/// One record of a foreign file: structure, whether the optional M block is present, and
/// whether the record is a null shape.
pub struct Rec<'a> {
    pub spec: Spec<'a>,
    pub with_m: bool,
    pub null: bool,
}
pub const fn rec<'a>(parts: &'a [usize], with_m: bool) -> Rec<'a> {
    Rec { spec: spec(parts), with_m, null: false }
}
pub const fn rec_k<'a>(parts: &'a [usize], kinds: &'a [i32], with_m: bool) -> Rec<'a> {
    Rec { spec: spec_k(parts, kinds, &[], &[]), with_m, null: false }
}
pub const NULL_REC: Rec = Rec { spec: spec(&[]), with_m: false, null: true };

/// Independent encoder: header of type `code`, the records (arbitrary record numbers,
/// arbitrary stored boxes, symbolic coordinates incl. NaN/inf), then `garbage` arbitrary
/// bytes behind the declared length. Returns (declared length, models as stored).
fn foreign_image<const N: usize>(img: &mut [u8; N], code: i32, recs: &[Rec], garbage: usize) -> (usize, [Model; MAXR]) {
    let mut models = [Model::empty(code); MAXR];
    let mut p = 100;
    let mut i = 0;
    while i < recs.len() {
        let mut m = if recs[i].null {
            Model::empty(T_NULL)
        } else {
            let mut m = Model::with_structure(code, recs[i].spec.parts);
            let mut k = 0;
            while k < recs[i].spec.kinds.len() {
                m.pkind[k] = recs[i].spec.kinds[k];
                k += 1;
            }
            sym_vertices(&mut m);
            let mut c = 0;
            while c < 8 {
                m.bbox[c] = any_f64();
                c += 1;
            }
            m
        };
        m.with_m = recs[i].with_m && may_have_m(code) && !recs[i].null;
        let recno: i32 = kani::any();
        p = enc_record(&m, recno, img, p);
        models[i] = m;
        i += 1;
    }
    let mut hb = [0.0f64; 8];
    let mut c = 0;
    while c < 8 {
        hb[c] = any_f64();
        c += 1;
    }
    enc_header(img, p, code, &hb);
    let mut g = 0;
    while g < garbage {
        img[p + g] = kani::any();
        g += 1;
    }
    (p, models)
}

/// What the reader must hand back for a stored record: absent measures become NO_DATA.
fn expected(stored: &Model) -> Model {
    let mut e = *stored;
    if !stored.with_m {
        let mut i = 0;
        while i < e.nv {
            e.v[i][3] = shapefile::NO_DATA;
            i += 1;
        }
        // no claim for the M range of a record without M block
        e.bbox[6] = 0.0;
        e.bbox[7] = 0.0;
    }
    e
}
fn check<S: TShape>(stored: &Model, got: &S) {
    let e = expected(stored);
    let mut g = got.extract();
    if !stored.with_m {
        g.bbox[6] = 0.0;
        g.bbox[7] = 0.0;
    }
    assert_read_equals_stored::<S>(&e, &g);
}

/// Typed iteration over a foreign file of type S.
pub fn foreign_typed<S: TShape, const N: usize>(recs: &[Rec], garbage: usize) {
    let mut img = [0u8; N];
    let (len, models) = foreign_image::<N>(&mut img, S::CODE, recs, garbage);
    let mut rd = ShapeReader::new(MemSource::with_len(&img, len + garbage));
    match &mut rd {
        Ok(rd) => {
            let mut it = rd.iter_shapes_as::<S>();
            let mut i = 0;
            while i < recs.len() {
                let item = it.next();
                match &item {
                    Some(Ok(s)) => check::<S>(&models[i], s),
                    _ => assert!(false, "a conformant record was not decoded"),
                }
                std::mem::forget(item);
                i += 1;
            }
            let item = it.next();
            assert!(item.is_none(), "bytes behind the declared length were not ignored");
            std::mem::forget(item);
        }
        Err(_) => assert!(false, "a conformant file could not be opened"),
    }
    std::mem::forget(rd);
    kani::cover!(true, "all records decoded");
}

macro_rules! ft {
    ($name:ident, $T:ty, $N:expr, $recs:expr, $g:expr) => {
        #[kani::proof]
        #[kani::unwind(34)]
        fn $name() {
            foreign_typed::<$T, $N>(&$recs, $g);
        }
    };
}
// H: tier=quick; unwind=34; sym=coords, stored boxes, record numbers (any i32); file=PointZ records of 32 bytes (with M) and 24 bytes (without M), 8 garbage bytes behind the declared length; asserts=both decoded, absent measure == NO_DATA, present measure bit-identical, garbage ignored
ft!(c03_q_pointz_with_and_without_m, PointZ, 224, [rec(&[], true), rec(&[], false)], 8);
// H: tier=quick; unwind=34; sym=coords, boxes, record numbers; file=PolylineZ [2] without M block then PolylineZ [1,2] with M block (a part with a single vertex); asserts=structure, XYZ bits, stored box returned as stored, measures NO_DATA when absent / normalised when present
ft!(c03_q_polylinez_optional_m, PolylineZ, 512, [rec(&[2], false), rec(&[1, 2], true)], 0);
// H: tier=quick; unwind=34; sym=coords, boxes, record numbers; file=PolylineM [2] without M block; asserts=decoded, all measures NO_DATA
ft!(c03_q_polylinem_without_m, PolylineM, 256, [rec(&[2], false)], 0);
// H: tier=quick; unwind=34; sym=coords, boxes, record numbers; file=MultipointM of 2 points without M then MultipointM of 1 point with M; asserts=as above
ft!(c03_q_multipointm_optional_m, MultipointM, 320, [rec(&[2], false), rec(&[1], true)], 0);
// H: tier=quick; unwind=34; sym=coords, boxes; file=MultipointZ 2 points without M; asserts=Z bits, measures NO_DATA
ft!(c03_q_multipointz_without_m, MultipointZ, 256, [rec(&[2], false)], 0);
// H: tier=quick; unwind=34; sym=boxes, record numbers; file=Polyline with zero parts and zero points, then Polyline with parts of 0 and 2 vertices; asserts=decoded with exactly that structure
ft!(c03_q_polyline_empty_and_empty_part, Polyline, 320, [rec(&[], true), rec(&[0, 2], true)], 0);
// H: tier=quick; unwind=34; sym=coords (all doubles), boxes; file=Polygon with a first ring in arbitrary (possibly counter-clockwise) order, 4 vertices, 8 garbage bytes; asserts=vertices and stored box returned as stored whatever the orientation
ft!(c03_q_polygon_any_orientation, Polygon, 256, [rec(&[4], true)], 8);
// H: tier=quick; unwind=34; sym=coords, boxes; file=Polygon whose first ring has zero vertices (two equal part offsets) followed by a ring of 3, then a Polygon with zero parts; asserts=decoded with exactly that structure (an empty ring is legal in a file), no panic
ft!(c03_q_polygon_empty_ring, Polygon, 320, [rec(&[0, 3], true), rec(&[], true)], 0);
// H: tier=thorough; unwind=34; sym=coords, boxes; file=PolygonZ with rings of 3 and 0 vertices (last offset == point count), no M block; asserts=as above
ft!(c03_t_polygonz_empty_last_ring, PolygonZ, 320, [rec(&[3, 0], false)], 0);
// H: tier=quick; unwind=34; sym=coords, boxes; file=Multipatch [fan 3, inner ring 3] without M block; asserts=patch kinds, XYZ bits, measures NO_DATA
ft!(c03_q_multipatch_without_m, Multipatch, 400, [rec_k(&[3, 3], &[1, 3], false)], 0);
// H: tier=quick; unwind=34; sym=coords, boxes; file=Multipatch [first ring 3, ring 3] (patch kinds 4 and 5) without M block; asserts=patch kinds kept apart (FirstRing vs Ring), XYZ bits, measures NO_DATA
ft!(c03_q_multipatch_firstring_ring, Multipatch, 400, [rec_k(&[3, 3], &[4, 5], false)], 0);
// H: tier=thorough; unwind=34; sym=coords, boxes; file=Multipatch [strip 3] with M block then [outer ring 4] without; asserts=as above
ft!(c03_t_multipatch_optional_m, Multipatch, 640, [rec_k(&[3], &[0], true), rec_k(&[4], &[2], false)], 0);
// H: tier=thorough; unwind=34; sym=coords, boxes; file=PolygonZ [4] without M then PolygonM-less...: PolygonZ [3] with M; asserts=as above
ft!(c03_t_polygonz_optional_m, PolygonZ, 640, [rec(&[4], false), rec(&[3], true)], 0);
// H: tier=thorough; unwind=34; sym=coords, boxes; file=PolygonM [4] without M block; asserts=as above
ft!(c03_t_polygonm_without_m, PolygonM, 320, [rec(&[4], false)], 0);
// H: tier=thorough; unwind=34; sym=coords, boxes; file=Multipoint with zero points then 2 points; asserts=structure and XY
ft!(c03_t_multipoint_zero_then_two, Multipoint, 320, [rec(&[0], true), rec(&[2], true)], 0);
// H: tier=thorough; unwind=34; sym=coords; file=3 Point records with arbitrary record numbers, 8 garbage bytes; asserts=3 shapes in order, garbage ignored
ft!(c03_t_point_3_recnos, Point, 224, [rec(&[], true), rec(&[], true), rec(&[], true)], 8);
// H: tier=thorough; unwind=34; sym=coords; file=PointM 2 records; asserts=M bit-identical (no normalisation for single points)
ft!(c03_t_pointm_2, PointM, 224, [rec(&[], true), rec(&[], true)], 0);

/// Generic iteration over a point-type file that also holds null-shape records.
fn with_nulls<S: TShape, const N: usize>(recs: &[Rec], header_code: i32) {
    let mut img = [0u8; N];
    let (len, models) = foreign_image::<N>(&mut img, S::CODE, recs, 0);
    // the header may carry the shapes' type or the null type (type-0 file of null records)
    put_i32_le(&mut img, 32, header_code);
    let mut rd = ShapeReader::new(MemSource::with_len(&img, len));
    match &mut rd {
        Ok(rd) => {
            let mut it = rd.iter_shapes();
            let mut i = 0;
            while i < recs.len() {
                let item = it.next();
                match &item {
                    Some(Ok(sh)) => {
                        if recs[i].null {
                            assert!(matches!(sh, Shape::NullShape), "a null record was decoded as something else");
                        } else {
                            match S::of_shape(sh) {
                                Some(s) => check::<S>(&models[i], s),
                                None => assert!(false, "record decoded as another variant"),
                            }
                        }
                    }
                    _ => assert!(false, "a conformant record was not decoded"),
                }
                std::mem::forget(item);
                i += 1;
            }
            let item = it.next();
            assert!(item.is_none());
            std::mem::forget(item);
        }
        Err(_) => assert!(false, "a conformant file could not be opened"),
    }
    std::mem::forget(rd);
    kani::cover!(true, "all records decoded");
}
// H: tier=quick; unwind=34; sym=coords, record numbers; file=header type PointZ, records [PointZ without M, null shape, PointZ with M]; route=generic iteration; asserts=PointZ, NullShape, PointZ in that order with the stored values
#[kani::proof]
#[kani::unwind(34)]
fn c03_q_null_records_between_points() {
    with_nulls::<PointZ, 256>(&[rec(&[], false), NULL_REC, rec(&[], true)], T_POINTZ);
}
// H: tier=quick; unwind=34; sym=record numbers; file=header type 0 (null shape), two null records; route=generic iteration; asserts=two NullShape values then end
#[kani::proof]
#[kani::unwind(34)]
fn c03_q_type0_file_of_nulls() {
    with_nulls::<Point, 160>(&[NULL_REC, NULL_REC], T_NULL);
}

/// Generic decode of one multi-vertex record at `Shape::read_from` (by reference; see
/// DESIGN.md section 8 for why generic *iteration* of such records is not modelled).
fn generic_record<S: TShape, const N: usize>(r: &Rec) {
    let mut img = [0u8; N];
    let (len, models) = foreign_image::<N>(&mut img, S::CODE, std::slice::from_ref(r), 0);
    let clen = len - 108;
    let mut src = MemSource::with_len(&img, len);
    src.pos = 108;
    let res = Shape::read_from(&mut src, clen as i32);
    match &res {
        Ok(sh) => match S::of_shape(sh) {
            Some(s) => check::<S>(&models[0], s),
            None => assert!(false, "record decoded as another variant"),
        },
        Err(_) => assert!(false, "a conformant record was not decoded"),
    }
    std::mem::forget(res);
    kani::cover!(true, "record decoded generically");
}
// H: tier=quick; unwind=34; sym=coords, box; record=PolylineZ [2,1] without M; call=Shape::read_from; asserts=Shape::PolylineZ with the stored structure, measures NO_DATA
#[kani::proof]
#[kani::unwind(34)]
fn c03_q_generic_polylinez_without_m() {
    generic_record::<PolylineZ, 320>(&rec(&[2, 1], false));
}
// H: tier=thorough; unwind=34; sym=coords, box; record=MultipointZ 2 points without M; call=Shape::read_from; asserts=as above
#[kani::proof]
#[kani::unwind(34)]
fn c03_t_generic_multipointz_without_m() {
    generic_record::<MultipointZ, 256>(&rec(&[2], false));
}
// H: tier=thorough; unwind=34; sym=coords, box; record=Multipatch [ring 3] without M; call=Shape::read_from; asserts=as above
#[kani::proof]
#[kani::unwind(34)]
fn c03_t_generic_multipatch_without_m() {
    generic_record::<Multipatch, 320>(&rec_k(&[3], &[5], false));
}

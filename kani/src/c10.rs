//! C10 — (harnesses not written yet)

//! C10 — a writer holds one shape type; a rejected write changes nothing.
use crate::env::*;
use crate::model::*;
use crate::refcodec::*;
use shapefile::record::{ConcreteReadableShape, ReadableShape, WritableShape};
use shapefile::*;
use std::io::{Seek, Write};

const INF: f64 = f64::INFINITY;

/// One concrete instance of every type, with extreme coordinates (-inf..+inf in every
/// dimension) so that any contribution of a rejected shape to the header box would show.
pub struct Insts {
    point: Point,
    pointm: PointM,
    pointz: PointZ,
    polyline: Polyline,
    polylinem: PolylineM,
    polylinez: PolylineZ,
    polygon: Polygon,
    polygonm: PolygonM,
    polygonz: PolygonZ,
    multipoint: Multipoint,
    multipointm: MultipointM,
    multipointz: MultipointZ,
    multipatch: Multipatch,
}

fn insts() -> Insts {
    let p = |s: f64| Point::new(s * INF, s * INF);
    let pm = |s: f64| PointM::new(s * INF, s * INF, s * INF);
    let pz = |s: f64| PointZ::new(s * INF, s * INF, s * INF, s * INF);
    Insts {
        point: p(1.0),
        pointm: pm(1.0),
        pointz: pz(1.0),
        polyline: Polyline::new(vec![p(-1.0), p(1.0)]),
        polylinem: PolylineM::new(vec![pm(-1.0), pm(1.0)]),
        polylinez: PolylineZ::new(vec![pz(-1.0), pz(1.0)]),
        polygon: Polygon::new(PolygonRing::Outer(vec![p(-1.0), p(1.0), p(-1.0)])),
        polygonm: PolygonM::new(PolygonRing::Outer(vec![pm(-1.0), pm(1.0), pm(-1.0)])),
        polygonz: PolygonZ::new(PolygonRing::Outer(vec![pz(-1.0), pz(1.0), pz(-1.0)])),
        multipoint: Multipoint::new(vec![p(-1.0), p(1.0)]),
        multipointm: MultipointM::new(vec![pm(-1.0), pm(1.0)]),
        multipointz: MultipointZ::new(vec![pz(-1.0), pz(1.0)]),
        multipatch: Multipatch::new(Patch::TriangleStrip(vec![pz(-1.0), pz(1.0), pz(-1.0)])),
    }
}

/// Offer one shape of another type: must be refused with the exact error, and no
/// operation may reach either destination.
fn offer<S: TShape, W: Write + Seek, const N: usize>(
    w: &mut ShapeWriter<W>,
    s: &S,
    t1: i32,
    shp: *const MemFile<N>,
    shx: *const MemFile<N>,
) {
    if S::CODE == t1 {
        return;
    }
    let before = unsafe { ((*shp).ops(), (*shp).len, (*shp).pos, (*shx).ops(), (*shx).len, (*shx).pos) };
    let r = w.write_shape(s);
    match &r {
        Err(Error::MismatchShapeType { requested, actual }) => {
            assert!(*requested as i32 == t1, "mismatch error does not name the file's type as requested");
            assert!(*actual as i32 == S::CODE, "mismatch error does not name the offered type as actual");
        }
        Ok(()) => assert!(false, "a shape of another type was accepted"),
        Err(_) => assert!(false, "a shape of another type was refused with another error"),
    }
    std::mem::forget(r);
    let after = unsafe { ((*shp).ops(), (*shp).len, (*shp).pos, (*shx).ops(), (*shx).len, (*shx).pos) };
    assert!(before == after, "a rejected write issued I/O to a destination");
}

fn offer_all<W: Write + Seek, const N: usize>(
    w: &mut ShapeWriter<W>,
    i: &Insts,
    t1: i32,
    shp: *const MemFile<N>,
    shx: *const MemFile<N>,
) {
    offer(w, &i.point, t1, shp, shx);
    offer(w, &i.pointm, t1, shp, shx);
    offer(w, &i.pointz, t1, shp, shx);
    offer(w, &i.polyline, t1, shp, shx);
    offer(w, &i.polylinem, t1, shp, shx);
    offer(w, &i.polylinez, t1, shp, shx);
    offer(w, &i.polygon, t1, shp, shx);
    offer(w, &i.polygonm, t1, shp, shx);
    offer(w, &i.polygonz, t1, shp, shx);
    offer(w, &i.multipoint, t1, shp, shx);
    offer(w, &i.multipointm, t1, shp, shx);
    offer(w, &i.multipointz, t1, shp, shx);
    offer(w, &i.multipatch, t1, shp, shx);
}

/// History [write, offers, write, offers, finalize, offers, write, drop] against the same
/// history without offers.
pub fn one_type<S: TShape, const N: usize>(sp: &Spec) {
    let i = insts();
    let m1 = sym_spec(S::CODE, sp);
    let m2 = sym_spec(S::CODE, sp);
    let a = S::build(&m1);
    let b = S::build(&m2);
    let mut shp = MemFile::<N>::new();
    let mut shx = MemFile::<N>::new();
    {
        let (p, x) = (&shp as *const MemFile<N>, &shx as *const MemFile<N>);
        let mut w = ShapeWriter::with_shx(Shared::new(&mut shp), Shared::new(&mut shx));
        let r = w.write_shape(&a);
        assert!(r.is_ok());
        std::mem::forget(r);
        offer_all(&mut w, &i, S::CODE, p, x);
        let r = w.write_shape(&b);
        assert!(r.is_ok());
        std::mem::forget(r);
        offer_all(&mut w, &i, S::CODE, p, x);
        let r = w.finalize();
        assert!(r.is_ok());
        std::mem::forget(r);
        offer_all(&mut w, &i, S::CODE, p, x);
        // a rejected write must not make the writer dirty: this finalize has nothing to commit
        let before = unsafe { ((*p).ops(), (*x).ops()) };
        let r = w.finalize();
        std::mem::forget(r);
        let after = unsafe { ((*p).ops(), (*x).ops()) };
        assert!(before == after, "a rejected write left something to commit");
        let r = w.write_shape(&a);
        assert!(r.is_ok());
        std::mem::forget(r);
    }
    let mut rshp = MemFile::<N>::new();
    let mut rshx = MemFile::<N>::new();
    {
        let mut w = ShapeWriter::with_shx(&mut rshp, &mut rshx);
        let r = w.write_shape(&a);
        std::mem::forget(r);
        let r = w.write_shape(&b);
        std::mem::forget(r);
        let r = w.finalize();
        std::mem::forget(r);
        let r = w.write_shape(&a);
        std::mem::forget(r);
    }
    assert!(same_image(&shp, &rshp), ".shp differs from the history without the rejected calls");
    assert!(same_image(&shx, &rshx), ".shx differs from the history without the rejected calls");
    kani::cover!(shp.len > 100, "three records written around 36 rejected offers");
}

macro_rules! ot {
    ($name:ident, $T:ty, $N:expr, $sp:expr) => {
        #[kani::proof]
        #[kani::unwind(34)]
        fn $name() {
            one_type::<$T, $N>(&$sp);
        }
    };
}
// H: tier=quick; unwind=34; sym=coords of the written Points; offered=the 12 other types at 3 positions of [write, *, write, *, finalize, *, write, drop]; asserts=Err(MismatchShapeType{requested: file type, actual: offered}), no I/O and no position change on .shp/.shx, writer not made dirty, final images identical to the history without offers
ot!(c10_q_first_point, Point, 224, spec(&[]));
// H: tier=quick; unwind=34; sym=coords of the written PointZ; offered=12 other types x 3 positions; asserts=as first_point
ot!(c10_q_first_pointz, PointZ, 256, spec(&[]));
// H: tier=quick; unwind=34; sym=coords of the written Polyline [2]; offered=12 other types x 3 positions; asserts=as first_point
ot!(c10_q_first_polyline, Polyline, 416, spec(&[2]));
// H: tier=quick; unwind=34; sym=coords of the written MultipointM (2 points); offered=12 other types x 3 positions; asserts=as first_point
ot!(c10_q_first_multipointm, MultipointM, 480, spec(&[2]));
// H: tier=thorough; unwind=34; sym=coords of the written Multipatch (strip 3); offered=12 other types x 3 positions; asserts=as first_point
ot!(c10_q_first_multipatch, Multipatch, 704, spec_k(&[3], &[0], &[], &[]));
// H: tier=thorough; unwind=34; sym=coords of the written PointM; offered=12 other types x 3 positions; asserts=as first_point
ot!(c10_t_first_pointm, PointM, 256, spec(&[]));
// H: tier=thorough; unwind=34; sym=coords of the written PolylineM [2]; offered=12 other types x 3 positions; asserts=as first_point
ot!(c10_t_first_polylinem, PolylineM, 512, spec(&[2]));
// H: tier=thorough; unwind=34; sym=coords of the written PolylineZ [2]; offered=12 other types x 3 positions; asserts=as first_point
ot!(c10_t_first_polylinez, PolylineZ, 608, spec(&[2]));
// H: tier=thorough; unwind=34; sym=coords of the written Polygon (closed ring 4); offered=12 other types x 3 positions; asserts=as first_point
ot!(c10_t_first_polygon, Polygon, 512, spec_k(&[4], &[0], &[], &[0]));
// H: tier=thorough; unwind=34; sym=coords of the written PolygonM (closed ring 4); offered=12 other types x 3 positions; asserts=as first_point
ot!(c10_t_first_polygonm, PolygonM, 640, spec_k(&[4], &[0], &[], &[0]));
// H: tier=thorough; unwind=34; sym=coords of the written PolygonZ (closed ring 4); offered=12 other types x 3 positions; asserts=as first_point
ot!(c10_t_first_polygonz, PolygonZ, 768, spec_k(&[4], &[0], &[], &[0]));
// H: tier=thorough; unwind=34; sym=coords of the written Multipoint (2 points); offered=12 other types x 3 positions; asserts=as first_point
ot!(c10_t_first_multipoint, Multipoint, 416, spec(&[2]));
// H: tier=thorough; unwind=34; sym=coords of the written MultipointZ (2 points); offered=12 other types x 3 positions; asserts=as first_point
ot!(c10_t_first_multipointz, MultipointZ, 576, spec(&[2]));

//! C08 — shapes and attribute rows stay paired one-to-one through write (write side only).
//!
//! The complete `Writer` with the real `dbase::TableWriter` (only stub: the clock read for
//! the .dbf header date). The read side needs `dbase::Reader::new`, whose symbolic
//! execution did not finish (900 s for a one-row table): outside the claim.
use crate::env::*;
use crate::model::*;
use crate::refcodec::*;
use shapefile::dbase::{FieldIOError, FieldWriter, TableWriterBuilder, WritableRecord};
use shapefile::*;
use std::convert::TryFrom;
use std::io::Write;

fn fixed_now() -> time::OffsetDateTime {
    time::OffsetDateTime::UNIX_EPOCH
}

/// Row carrying its own index in one Integer field. mode 0: well-formed; 1: writes no field;
/// 2: writes a value of another field type.
struct Row {
    idx: i32,
    mode: u8,
}
impl WritableRecord for Row {
    fn write_using<'a, W: Write>(&self, fw: &mut FieldWriter<'a, W>) -> Result<(), FieldIOError> {
        match self.mode {
            0 => fw.write_next_field_value(&self.idx),
            1 => Ok(()),
            _ => fw.write_next_field_value(&1.5f64),
        }
    }
}

/// Outcome classes of one write_shape_and_record call.
#[derive(Clone, Copy, PartialEq)]
pub enum Call {
    Valid,
    OtherShapeType,
    RowWithoutField,
    RowWrongType,
}

pub fn pairing(calls: &[Call]) {
    const N: usize = 320;
    let mut shp = MemFile::<N>::new();
    let mut shx = MemFile::<N>::new();
    let mut dbf = MemFile::<N>::new();
    let mut expect_pairs = 0usize;
    {
        let sw = ShapeWriter::with_shx(&mut shp, &mut shx);
        let tw = TableWriterBuilder::new()
            .add_integer_field(shapefile::dbase::FieldName::try_from("idx").unwrap())
            .build_with_dest(&mut dbf);
        let mut w = Writer::new(sw, tw);
        // the first call is always a valid Point pair, so the file type is Point
        let mut k = 0;
        while k < calls.len() {
            let p = Point::new(any_f64(), any_f64());
            let r = match calls[k] {
                Call::Valid => w.write_shape_and_record(&p, &Row { idx: k as i32, mode: 0 }),
                Call::OtherShapeType => w.write_shape_and_record(&PointM::new(1.0, 2.0, 3.0), &Row { idx: k as i32, mode: 0 }),
                Call::RowWithoutField => w.write_shape_and_record(&p, &Row { idx: k as i32, mode: 1 }),
                Call::RowWrongType => w.write_shape_and_record(&p, &Row { idx: k as i32, mode: 2 }),
            };
            if calls[k] == Call::Valid {
                assert!(r.is_ok(), "a valid pair was refused");
                expect_pairs += 1;
            } else {
                assert!(r.is_err(), "an invalid pair was accepted");
            }
            std::mem::forget(r);
            k += 1;
        }
    }
    // entry counts of the three files
    let shp_records = match walk_shp(&shp.buf, shp.len) {
        Some(w) => w.n,
        None => {
            assert!(false, ".shp is not well-formed");
            0
        }
    };
    let shx_entries = (shx.len - 100) / 8;
    let dbf_rows = u32::from_le_bytes([dbf.buf[4], dbf.buf[5], dbf.buf[6], dbf.buf[7]]) as usize;
    assert!(shp_records == shx_entries, ".shp and .shx entry counts differ");
    assert!(shp_records == dbf_rows, "a failed call left the .shp/.shx and the .dbf with different entry counts");
    assert!(dbf_rows == expect_pairs, "the number of rows differs from the number of accepted pairs");
    kani::cover!(true, "three files compared");
}

macro_rules! pr {
    ($name:ident, $calls:expr) => {
        #[kani::proof]
        #[kani::unwind(34)]
        #[kani::stub(time::OffsetDateTime::now_utc, fixed_now)]
        fn $name() {
            pairing(&$calls);
        }
    };
}
use Call::*;
// H: tier=quick; unwind=34; sym=Point coordinates; history=[valid, valid]; asserts=2 records, 2 index entries, 2 rows
pr!(c08_q_valid_valid, [Valid, Valid]);
// H: tier=quick; unwind=34; sym=Point coordinates; history=[valid, shape of another type, valid]; asserts=the rejected call leaves the three files with equal counts (2 at the end)
pr!(c08_q_valid_othertype_valid, [Valid, OtherShapeType, Valid]);
// H: tier=quick; unwind=34; sym=Point coordinates; history=[valid, row that writes no field]; asserts=the failed call leaves equal entry counts in .shp, .shx and .dbf
pr!(c08_q_valid_rowwithoutfield, [Valid, RowWithoutField]);
// H: tier=quick; unwind=34; sym=Point coordinates; history=[valid, row with a value of the wrong field type, valid]; asserts=equal entry counts after the failed call and at the end
pr!(c08_q_valid_rowwrongtype_valid, [Valid, RowWrongType, Valid]);

//! C08 — (harnesses not written yet)

//! C05 — stored bounding boxes are exact: per shape and in the file header.
use crate::env::*;
use crate::model::*;
use crate::refcodec::*;
use shapefile::record::{ConcreteReadableShape, ReadableShape, WritableShape};
use shapefile::*;

/// Independent characterisation of "lo/hi are exactly the extreme values of column `c`
/// over vertices 0..n": every value inside, and both bounds attained (numeric equality, so
/// either zero sign is accepted). Not a re-implementation of the fold.
pub fn is_exact_range(v: &[[f64; 4]], n: usize, c: usize, lo: f64, hi: f64) -> bool {
    let mut all_in = true;
    let mut lo_hit = false;
    let mut hi_hit = false;
    let mut i = 0;
    while i < n {
        let x = v[i][c];
        if !(lo <= x && x <= hi) {
            all_in = false;
        }
        if x == lo {
            lo_hit = true;
        }
        if x == hi {
            hi_hit = true;
        }
        i += 1;
    }
    all_in && lo_hit && hi_hit
}

pub fn assume_not_nan(m: &Model) {
    let mut i = 0;
    while i < m.nv {
        let mut c = 0;
        while c < 4 {
            kani::assume(m.v[i][c] == m.v[i][c]);
            c += 1;
        }
        i += 1;
    }
}

/// (a) per shape: box reported by the constructed shape, and the box bytes of its record.
pub fn shape_box<S: TShape, const N: usize>(parts: &[usize], kinds: &[i32], open: &[usize], closed: &[usize]) {
    let mut m = Model::with_structure(S::CODE, parts);
    let mut i = 0;
    while i < kinds.len() {
        m.pkind[i] = kinds[i];
        i += 1;
    }
    sym_vertices(&mut m);
    let mut i = 0;
    while i < open.len() {
        pin_open(&mut m, open[i], 1.0, 2.0);
        i += 1;
    }
    let mut i = 0;
    while i < closed.len() {
        pin_closed(&mut m, closed[i], [1.0, 2.0, 3.0, 4.0]);
        i += 1;
    }
    assume_not_nan(&m);
    let s = S::build(&m);
    let b = s.extract();
    // extremes over the vertices the shape actually holds (after closing)
    assert!(is_exact_range(&b.v, b.nv, 0, b.bbox[0], b.bbox[2]), "X range is not exact");
    assert!(is_exact_range(&b.v, b.nv, 1, b.bbox[1], b.bbox[3]), "Y range is not exact");
    if has_z(S::CODE) {
        assert!(is_exact_range(&b.v, b.nv, 2, b.bbox[4], b.bbox[5]), "Z range is not exact");
    }
    if may_have_m(S::CODE) {
        assert!(is_exact_range(&b.v, b.nv, 3, b.bbox[6], b.bbox[7]), "M range is not exact");
    }
    // what the record stores
    let mut f = MemFile::<N>::new();
    put_i32_le(&mut f.buf, 0, S::CODE);
    f.pos = 4;
    f.len = 4;
    let w = s.write_to(&mut f);
    assert!(w.is_ok());
    std::mem::forget(w);
    match dec_content(&f.buf, 0, f.len) {
        Some(d) => {
            assert!(same_bbox(&b, &d, 0, 4));
            if has_z(S::CODE) {
                assert!(same_bbox(&b, &d, 4, 6));
            }
            if may_have_m(S::CODE) {
                assert!(d.with_m);
                assert!(same_bbox(&b, &d, 6, 8));
            }
            kani::cover!(true, "record decoded by the independent decoder");
        }
        None => assert!(false, "record is not well-formed"),
    }
}

macro_rules! sb {
    ($name:ident, $T:ty, $N:expr, $parts:expr, $kinds:expr, $open:expr, $closed:expr) => {
        #[kani::proof]
        #[kani::unwind(22)]
        fn $name() {
            shape_box::<$T, $N>(&$parts, &$kinds, &$open, &$closed);
        }
    };
}

// H: tier=quick; sym=3 vertices x 2 non-NaN f64; asserts=box X,Y exact (forall inside, both bounds attained) on accessor and in record bytes
sb!(c05_q_shape_multipoint_3, Multipoint, 128, [3], [], [], []);
// H: tier=quick; sym=3 vertices x 3 non-NaN f64; asserts=box X,Y,M exact on accessor and in record bytes
sb!(c05_q_shape_multipointm_3, MultipointM, 192, [3], [], [], []);
// H: tier=quick; sym=2 vertices x 4 non-NaN f64; asserts=box X,Y,Z,M exact
sb!(c05_q_shape_multipointz_2, MultipointZ, 192, [2], [], [], []);
// H: tier=quick; sym=5 vertices in parts [2,3] x 2 f64; asserts=box X,Y exact over all parts
sb!(c05_q_shape_polyline_2_3, Polyline, 192, [2, 3], [], [], []);
// H: tier=quick; sym=4 vertices in parts [2,2] x 3 f64; asserts=box X,Y,M exact over all parts
sb!(c05_q_shape_polylinem_2_2, PolylineM, 256, [2, 2], [], [], []);
// H: tier=quick; sym=5 vertices in parts [2,3] x 4 f64; asserts=box X,Y,Z,M exact over all parts
sb!(c05_q_shape_polylinez_2_3, PolylineZ, 320, [2, 3], [], [], []);
// H: tier=quick; sym=rings [open 3 -> closed 4, closed 4], interior coordinates symbolic, ends pinned; asserts=box X,Y exact over all rings incl. the second
sb!(c05_q_shape_polygon_o3_c4, Polygon, 256, [3, 4], [0, 1], [0], [1]);
// H: tier=quick; sym=ring closed 4, X,Y,M of interior symbolic; asserts=box X,Y,M exact
sb!(c05_q_shape_polygonm_c4, PolygonM, 256, [4], [0], [], [0]);
// H: tier=quick; sym=rings [closed 4, open 3], X,Y,Z,M symbolic; asserts=box X,Y,Z,M exact
sb!(c05_q_shape_polygonz_c4_o3, PolygonZ, 400, [4, 3], [0, 1], [1], [0]);
// H: tier=quick; sym=patches [strip 3, outer ring closed 4]; asserts=box X,Y,Z,M exact over all patches
sb!(c05_q_shape_multipatch_strip3_outer4, Multipatch, 400, [3, 4], [0, 2], [], [1]);
// H: tier=thorough; sym=4 vertices x 4 f64; asserts=box exact
sb!(c05_t_shape_multipointz_4, MultipointZ, 256, [4], [], [], []);
// H: tier=thorough; sym=parts [2,2,3] x 4 f64; asserts=box exact over three parts
sb!(c05_t_shape_polylinez_2_2_3, PolylineZ, 400, [2, 2, 3], [], [], []);
// H: tier=thorough; sym=parts [3,4] x 3 f64; asserts=box exact
sb!(c05_t_shape_polylinem_3_4, PolylineM, 320, [3, 4], [], [], []);
// H: tier=thorough; sym=patches [fan 3, ring open 3, inner ring closed 4]; asserts=box exact over three patches
sb!(c05_t_shape_multipatch_fan3_ring3o_inner4, Multipatch, 512, [3, 3, 4], [1, 5, 3], [1], [2]);
// H: tier=thorough; sym=rings [closed 4, closed 4, open 3] x 3 f64; asserts=box exact over three rings
sb!(c05_t_shape_polygonm_c4_c4_o3, PolygonM, 512, [4, 4, 3], [0, 1, 0], [2], [0, 1]);

/// (b) header: k shapes written through the real writer, header bytes 36..100 decoded
/// independently and characterised over all vertices of all shapes.
pub fn header_box<S: TShape, const N: usize>(structs: &[&[usize]], kinds: &[i32]) {
    let k = structs.len();
    let mut all = [[0.0f64; 4]; MAXV];
    let mut n_all = 0usize;
    let mut shp = MemFile::<N>::new();
    {
        let mut w = ShapeWriter::new(&mut shp);
        let mut i = 0;
        while i < k {
            let mut m = Model::with_structure(S::CODE, structs[i]);
            let mut j = 0;
            while j < kinds.len() {
                m.pkind[j] = kinds[j];
                j += 1;
            }
            sym_vertices(&mut m);
            assume_not_nan(&m);
            // the carve-out of the statement: every measure is real data
            let mut j = 0;
            while j < m.nv {
                kani::assume(m.v[j][3] > shapefile::NO_DATA);
                j += 1;
            }
            let s = S::build(&m);
            let b = s.extract();
            let mut j = 0;
            while j < b.nv {
                all[n_all] = b.v[j];
                n_all += 1;
                j += 1;
            }
            let r = w.write_shape(&s);
            assert!(r.is_ok());
            std::mem::forget(r);
            i += 1;
        }
    }
    match dec_header(&shp.buf, shp.len) {
        Some(h) => {
            // xmin ymin xmax ymax zmin zmax mmin mmax
            assert!(is_exact_range(&all, n_all, 0, h.bbox[0], h.bbox[2]), "header X range is not exact");
            assert!(is_exact_range(&all, n_all, 1, h.bbox[1], h.bbox[3]), "header Y range is not exact");
            if has_z(S::CODE) {
                assert!(is_exact_range(&all, n_all, 2, h.bbox[4], h.bbox[5]), "header Z range is not exact");
            } else {
                assert!(h.bbox[4] == 0.0 && h.bbox[5] == 0.0, "header Z range of a type without Z is not 0");
            }
            if S::CODE != T_MULTIPATCH {
                if may_have_m(S::CODE) {
                    assert!(is_exact_range(&all, n_all, 3, h.bbox[6], h.bbox[7]), "header M range is not exact");
                } else {
                    assert!(h.bbox[6] == 0.0 && h.bbox[7] == 0.0, "header M range of a type without M is not 0");
                }
            }
            kani::cover!(true, "header decoded");
        }
        None => assert!(false, "header is not well-formed"),
    }
}

macro_rules! hb {
    ($name:ident, $T:ty, $N:expr, $structs:expr, $kinds:expr) => {
        #[kani::proof]
        #[kani::unwind(22)]
        fn $name() {
            header_box::<$T, $N>(&$structs, &$kinds);
        }
    };
}
// H: tier=quick; sym=2 Points x 2 non-NaN f64 (incl. +-inf, f64::MAX/MIN, +-0); asserts=header X,Y exact over both shapes; Z,M ranges 0
hb!(c05_q_header_point_2, Point, 192, [&[], &[]], []);
// H: tier=quick; sym=3 PointZ x 4 non-NaN f64, M > NO_DATA; asserts=header X,Y,Z,M exact over the three shapes (extreme may sit in any shape)
hb!(c05_q_header_pointz_3, PointZ, 256, [&[], &[], &[]], []);
// H: tier=quick; sym=2 PointM x 3 f64; asserts=header X,Y,M exact, Z range 0
hb!(c05_q_header_pointm_2, PointM, 192, [&[], &[]], []);
// H: tier=quick; sym=PolylineM [2] then [3] x 3 f64; asserts=header X,Y,M exact over both shapes and all parts, Z range 0
hb!(c05_q_header_polylinem_2_then_3, PolylineM, 400, [&[2], &[3]], []);
// H: tier=quick; sym=2 Multipatch (triangle strip 3) x 4 f64; asserts=header X,Y,Z exact (no claim for M)
hb!(c05_q_header_multipatch_2, Multipatch, 512, [&[3], &[3]], [0]);
// H: tier=thorough; sym=MultipointZ 2 then 1 then 2 points; asserts=header X,Y,Z,M exact over three shapes
hb!(c05_t_header_multipointz_2_1_2, MultipointZ, 640, [&[2], &[1], &[2]], []);
// H: tier=thorough; sym=Polyline [2,2] then [2]; asserts=header X,Y exact; Z,M 0
hb!(c05_t_header_polyline_22_then_2, Polyline, 400, [&[2, 2], &[2]], []);
// H: tier=thorough; sym=3 Multipoint of 1,2,1 points; asserts=header X,Y exact; Z,M 0
hb!(c05_t_header_multipoint_1_2_1, Multipoint, 400, [&[1], &[2], &[1]], []);
// H: tier=thorough; sym=PolylineZ [2] then [2]; asserts=header X,Y,Z,M exact
hb!(c05_t_header_polylinez_2_then_2, PolylineZ, 512, [&[2], &[2]], []);

//! C05 — (harnesses not written yet)

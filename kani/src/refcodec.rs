//! Independent ESRI shapefile codec, written from the ESRI whitepaper (July 1998).
//! Shares no code with the library: no `byteorder`, no `shapefile` types, only
//! `to_le_bytes` / `to_be_bytes` / `from_*_bytes` on fixed arrays.
//!
//! The in-memory representation is `Model`: fixed capacity, plain arrays, so that a
//! harness can keep the *structure* (counts) concrete and the *payload* symbolic.

pub const MAXP: usize = 4;
pub const MAXV: usize = 16;
pub const MAXR: usize = 4;

pub const NO_DATA: f64 = -1e39;

pub const T_NULL: i32 = 0;
pub const T_POINT: i32 = 1;
pub const T_POLYLINE: i32 = 3;
pub const T_POLYGON: i32 = 5;
pub const T_MULTIPOINT: i32 = 8;
pub const T_POINTZ: i32 = 11;
pub const T_POLYLINEZ: i32 = 13;
pub const T_POLYGONZ: i32 = 15;
pub const T_MULTIPOINTZ: i32 = 18;
pub const T_POINTM: i32 = 21;
pub const T_POLYLINEM: i32 = 23;
pub const T_POLYGONM: i32 = 25;
pub const T_MULTIPOINTM: i32 = 28;
pub const T_MULTIPATCH: i32 = 31;

pub const ALL_CODES: [i32; 14] = [0, 1, 3, 5, 8, 11, 13, 15, 18, 21, 23, 25, 28, 31];

#[derive(Clone, Copy, PartialEq, Eq, Debug)]
pub enum Family {
    Null,
    Point,
    Multipoint,
    Poly, // polyline and polygon share a layout
    Multipatch,
}

pub fn family(code: i32) -> Option<Family> {
    match code {
        0 => Some(Family::Null),
        1 | 11 | 21 => Some(Family::Point),
        8 | 18 | 28 => Some(Family::Multipoint),
        3 | 5 | 13 | 15 | 23 | 25 => Some(Family::Poly),
        31 => Some(Family::Multipatch),
        _ => None,
    }
}
/// Does the type carry a Z block (always present when it does)?
pub fn has_z(code: i32) -> bool {
    matches!(code, 11 | 13 | 15 | 18 | 31)
}
/// Can the type carry an M block? (optional for Z types and multipatch; for the M
/// types the whitepaper also marks it optional)
pub fn may_have_m(code: i32) -> bool {
    matches!(code, 11 | 13 | 15 | 18 | 21 | 23 | 25 | 28 | 31)
}

/// Fixed-capacity model of one shape.
#[derive(Clone, Copy)]
pub struct Model {
    pub code: i32,
    /// number of parts (Poly, Multipatch); 0 for Point / Multipoint / Null
    pub nparts: usize,
    /// length of each part
    pub plen: [usize; MAXP],
    /// multipatch: patch type code 0..=5; polygons: 0 = outer, 1 = inner (not stored
    /// in the file); otherwise 0
    pub pkind: [i32; MAXP],
    /// total number of vertices
    pub nv: usize,
    /// x, y, z, m of every vertex, in file order
    pub v: [[f64; 4]; MAXV],
    /// xmin ymin xmax ymax zmin zmax mmin mmax (as stored / as reported)
    pub bbox: [f64; 8],
    /// the optional M block is present in the encoding
    pub with_m: bool,
}

impl Model {
    pub fn empty(code: i32) -> Self {
        Self {
            code,
            nparts: 0,
            plen: [0; MAXP],
            pkind: [0; MAXP],
            nv: 0,
            v: [[0.0; 4]; MAXV],
            bbox: [0.0; 8],
            with_m: may_have_m(code),
        }
    }
    /// Structure with the given part lengths (Poly / Multipatch) or point count
    /// (Multipoint: one pseudo part, nparts stays 0).
    pub fn with_structure(code: i32, parts: &[usize]) -> Self {
        let mut m = Self::empty(code);
        match family(code) {
            Some(Family::Point) => {
                m.nv = 1;
            }
            Some(Family::Multipoint) => {
                m.nv = parts[0];
            }
            Some(Family::Poly) | Some(Family::Multipatch) => {
                m.nparts = parts.len();
                let mut i = 0;
                while i < parts.len() {
                    m.plen[i] = parts[i];
                    m.nv += parts[i];
                    i += 1;
                }
            }
            _ => {}
        }
        assert!(m.nv <= MAXV && m.nparts <= MAXP);
        m
    }
    pub fn part_start(&self, p: usize) -> usize {
        let mut s = 0;
        let mut i = 0;
        while i < p {
            s += self.plen[i];
            i += 1;
        }
        s
    }
}

// ---------------------------------------------------------------- primitive I/O

pub fn put_i32_be(b: &mut [u8], p: usize, v: i32) -> usize {
    let a = v.to_be_bytes();
    b[p] = a[0];
    b[p + 1] = a[1];
    b[p + 2] = a[2];
    b[p + 3] = a[3];
    p + 4
}
pub fn put_i32_le(b: &mut [u8], p: usize, v: i32) -> usize {
    let a = v.to_le_bytes();
    b[p] = a[0];
    b[p + 1] = a[1];
    b[p + 2] = a[2];
    b[p + 3] = a[3];
    p + 4
}
pub fn put_f64_le(b: &mut [u8], p: usize, v: f64) -> usize {
    let a = v.to_bits().to_le_bytes();
    b[p] = a[0];
    b[p + 1] = a[1];
    b[p + 2] = a[2];
    b[p + 3] = a[3];
    b[p + 4] = a[4];
    b[p + 5] = a[5];
    b[p + 6] = a[6];
    b[p + 7] = a[7];
    p + 8
}
pub fn get_i32_be(b: &[u8], p: usize) -> i32 {
    i32::from_be_bytes([b[p], b[p + 1], b[p + 2], b[p + 3]])
}
pub fn get_i32_le(b: &[u8], p: usize) -> i32 {
    i32::from_le_bytes([b[p], b[p + 1], b[p + 2], b[p + 3]])
}
pub fn get_f64_le(b: &[u8], p: usize) -> f64 {
    f64::from_bits(u64::from_le_bytes([
        b[p],
        b[p + 1],
        b[p + 2],
        b[p + 3],
        b[p + 4],
        b[p + 5],
        b[p + 6],
        b[p + 7],
    ]))
}

// ---------------------------------------------------------------- sizes

/// Content size in bytes (type code included) of the encoding of `m`.
pub fn content_size(m: &Model) -> usize {
    let n = m.nv;
    let z = has_z(m.code);
    let mm = m.with_m && may_have_m(m.code);
    match family(m.code) {
        Some(Family::Null) => 4,
        Some(Family::Point) => 4 + 16 + if z { 8 } else { 0 } + if mm { 8 } else { 0 },
        Some(Family::Multipoint) => {
            4 + 32 + 4 + 16 * n + if z { 16 + 8 * n } else { 0 } + if mm { 16 + 8 * n } else { 0 }
        }
        Some(Family::Poly) => {
            4 + 32
                + 8
                + 4 * m.nparts
                + 16 * n
                + if z { 16 + 8 * n } else { 0 }
                + if mm { 16 + 8 * n } else { 0 }
        }
        Some(Family::Multipatch) => {
            4 + 32 + 8 + 8 * m.nparts + 16 * n + 16 + 8 * n + if mm { 16 + 8 * n } else { 0 }
        }
        None => 0,
    }
}

// ---------------------------------------------------------------- encoder

/// Writes type code + body at `p`, returns the position after it.
pub fn enc_content(m: &Model, b: &mut [u8], mut p: usize) -> usize {
    let z = has_z(m.code);
    let mm = m.with_m && may_have_m(m.code);
    p = put_i32_le(b, p, m.code);
    match family(m.code) {
        Some(Family::Null) | None => p,
        Some(Family::Point) => {
            p = put_f64_le(b, p, m.v[0][0]);
            p = put_f64_le(b, p, m.v[0][1]);
            if z {
                p = put_f64_le(b, p, m.v[0][2]);
            }
            if mm {
                p = put_f64_le(b, p, m.v[0][3]);
            }
            p
        }
        Some(fam) => {
            p = put_f64_le(b, p, m.bbox[0]);
            p = put_f64_le(b, p, m.bbox[1]);
            p = put_f64_le(b, p, m.bbox[2]);
            p = put_f64_le(b, p, m.bbox[3]);
            if fam != Family::Multipoint {
                p = put_i32_le(b, p, m.nparts as i32);
            }
            p = put_i32_le(b, p, m.nv as i32);
            if fam != Family::Multipoint {
                let mut i = 0;
                let mut start = 0usize;
                while i < m.nparts {
                    p = put_i32_le(b, p, start as i32);
                    start += m.plen[i];
                    i += 1;
                }
            }
            if fam == Family::Multipatch {
                let mut i = 0;
                while i < m.nparts {
                    p = put_i32_le(b, p, m.pkind[i]);
                    i += 1;
                }
            }
            let mut i = 0;
            while i < m.nv {
                p = put_f64_le(b, p, m.v[i][0]);
                p = put_f64_le(b, p, m.v[i][1]);
                i += 1;
            }
            if z {
                p = put_f64_le(b, p, m.bbox[4]);
                p = put_f64_le(b, p, m.bbox[5]);
                let mut i = 0;
                while i < m.nv {
                    p = put_f64_le(b, p, m.v[i][2]);
                    i += 1;
                }
            }
            if mm {
                p = put_f64_le(b, p, m.bbox[6]);
                p = put_f64_le(b, p, m.bbox[7]);
                let mut i = 0;
                while i < m.nv {
                    p = put_f64_le(b, p, m.v[i][3]);
                    i += 1;
                }
            }
            p
        }
    }
}

/// Writes an 8-byte record header (record number, content length in words) and the
/// content; returns the position after the record.
pub fn enc_record(m: &Model, recno: i32, b: &mut [u8], p: usize) -> usize {
    let sz = content_size(m);
    let mut q = put_i32_be(b, p, recno);
    q = put_i32_be(b, q, (sz / 2) as i32);
    let e = enc_content(m, b, q);
    assert!(e == q + sz);
    e
}

/// Writes the 100-byte main header.
pub fn enc_header(b: &mut [u8], file_len_bytes: usize, code: i32, bbox: &[f64; 8]) {
    let mut p = put_i32_be(b, 0, 9994);
    let mut i = 0;
    while i < 5 {
        p = put_i32_be(b, p, 0);
        i += 1;
    }
    p = put_i32_be(b, p, (file_len_bytes / 2) as i32);
    p = put_i32_le(b, p, 1000);
    p = put_i32_le(b, p, code);
    // xmin ymin xmax ymax zmin zmax mmin mmax
    let mut i = 0;
    while i < 8 {
        p = put_f64_le(b, p, bbox[i]);
        i += 1;
    }
    assert!(p == 100);
}

/// Writes one .shx entry (offset and content length, both in words, big endian).
pub fn enc_index_entry(b: &mut [u8], p: usize, offset_bytes: usize, content_bytes: usize) -> usize {
    let q = put_i32_be(b, p, (offset_bytes / 2) as i32);
    put_i32_be(b, q, (content_bytes / 2) as i32)
}

// ---------------------------------------------------------------- strict decoder

/// What a strict reading of the 100-byte header yields.
#[derive(Clone, Copy)]
pub struct HeaderView {
    pub file_len_bytes: i64,
    pub code: i32,
    pub bbox: [f64; 8],
}

/// Strictly validates a main header: file code 9994 BE, five zero words, version 1000.
pub fn dec_header(b: &[u8], avail: usize) -> Option<HeaderView> {
    if avail < 100 {
        return None;
    }
    if get_i32_be(b, 0) != 9994 {
        return None;
    }
    let mut i = 0;
    while i < 5 {
        if get_i32_be(b, 4 + 4 * i) != 0 {
            return None;
        }
        i += 1;
    }
    let words = get_i32_be(b, 24);
    if get_i32_le(b, 28) != 1000 {
        return None;
    }
    let code = get_i32_le(b, 32);
    family(code)?;
    let mut bbox = [0.0f64; 8];
    let mut i = 0;
    while i < 8 {
        bbox[i] = get_f64_le(b, 36 + 8 * i);
        i += 1;
    }
    Some(HeaderView {
        file_len_bytes: words as i64 * 2,
        code,
        bbox,
    })
}

/// Strictly decodes a record content (type code + body) occupying exactly
/// `b[p .. p+len]`. Returns None when the bytes are not a well-formed content of that
/// exact length: unknown type, negative or oversized counts, length that matches
/// neither the with-M nor the without-M layout, part offsets not starting at 0 or not
/// non-decreasing or beyond the point count, unknown patch type.
pub fn dec_content(b: &[u8], p: usize, len: usize) -> Option<Model> {
    if len < 4 {
        return None;
    }
    let code = get_i32_le(b, p);
    let fam = family(code)?;
    let mut m = Model::empty(code);
    let z = has_z(code);
    let mut q = p + 4;
    match fam {
        Family::Null => {
            if len != 4 {
                return None;
            }
            m.with_m = false;
            Some(m)
        }
        Family::Point => {
            let base = 4 + 16 + if z { 8 } else { 0 };
            let with_m = if len == base + 8 && may_have_m(code) {
                true
            } else if len == base && code != T_POINTM {
                false
            } else {
                return None;
            };
            m.nv = 1;
            m.with_m = with_m;
            m.v[0][0] = get_f64_le(b, q);
            m.v[0][1] = get_f64_le(b, q + 8);
            q += 16;
            if z {
                m.v[0][2] = get_f64_le(b, q);
                q += 8;
            }
            if with_m {
                m.v[0][3] = get_f64_le(b, q);
            } else {
                m.v[0][3] = NO_DATA;
            }
            Some(m)
        }
        Family::Multipoint | Family::Poly | Family::Multipatch => {
            let fixed = 4 + 32 + if fam == Family::Multipoint { 4 } else { 8 };
            if len < fixed {
                return None;
            }
            m.bbox[0] = get_f64_le(b, q);
            m.bbox[1] = get_f64_le(b, q + 8);
            m.bbox[2] = get_f64_le(b, q + 16);
            m.bbox[3] = get_f64_le(b, q + 24);
            q += 32;
            let mut nparts: i32 = 0;
            if fam != Family::Multipoint {
                nparts = get_i32_le(b, q);
                q += 4;
            }
            let npoints = get_i32_le(b, q);
            q += 4;
            if nparts < 0 || npoints < 0 || nparts as usize > MAXP || npoints as usize > MAXV {
                return None;
            }
            let np = nparts as usize;
            let n = npoints as usize;
            let per_part = if fam == Family::Multipatch { 8 } else { 4 };
            let base = fixed + per_part * np + 16 * n + if z { 16 + 8 * n } else { 0 };
            let with_m = if len == base + 16 + 8 * n && may_have_m(code) {
                true
            } else if len == base {
                false
            } else {
                return None;
            };
            m.nparts = np;
            m.nv = n;
            m.with_m = with_m;
            // part offsets: first is 0, non-decreasing, <= n
            let mut starts = [0usize; MAXP];
            let mut i = 0;
            while i < np {
                let s = get_i32_le(b, q);
                q += 4;
                if s < 0 || s as usize > n {
                    return None;
                }
                if i == 0 && s != 0 {
                    return None;
                }
                if i > 0 && (s as usize) < starts[i - 1] {
                    return None;
                }
                starts[i] = s as usize;
                i += 1;
            }
            let mut i = 0;
            while i < np {
                let end = if i + 1 < np { starts[i + 1] } else { n };
                m.plen[i] = end - starts[i];
                i += 1;
            }
            if fam == Family::Multipatch {
                let mut i = 0;
                while i < np {
                    let k = get_i32_le(b, q);
                    q += 4;
                    if k < 0 || k > 5 {
                        return None;
                    }
                    m.pkind[i] = k;
                    i += 1;
                }
            }
            let mut i = 0;
            while i < n {
                m.v[i][0] = get_f64_le(b, q);
                m.v[i][1] = get_f64_le(b, q + 8);
                q += 16;
                i += 1;
            }
            if z {
                m.bbox[4] = get_f64_le(b, q);
                m.bbox[5] = get_f64_le(b, q + 8);
                q += 16;
                let mut i = 0;
                while i < n {
                    m.v[i][2] = get_f64_le(b, q);
                    q += 8;
                    i += 1;
                }
            }
            if with_m {
                m.bbox[6] = get_f64_le(b, q);
                m.bbox[7] = get_f64_le(b, q + 8);
                q += 16;
                let mut i = 0;
                while i < n {
                    m.v[i][3] = get_f64_le(b, q);
                    q += 8;
                    i += 1;
                }
            } else {
                let mut i = 0;
                while i < n {
                    m.v[i][3] = NO_DATA;
                    i += 1;
                }
            }
            if q != p + len {
                return None;
            }
            Some(m)
        }
    }
}

/// Result of walking a .shp image strictly.
#[derive(Clone, Copy)]
pub struct Walk {
    pub header: HeaderView,
    pub n: usize,
    /// byte offset of each record header
    pub start: [usize; MAXR],
    /// content length in bytes of each record
    pub clen: [usize; MAXR],
}

/// Strict walk of a whole .shp image of `len` bytes: header valid, declared length ==
/// `len`, records numbered 1..n without gaps or trailing bytes, each content length
/// positive, even by construction, and inside the file. Contents are not decoded here.
pub fn walk_shp(b: &[u8], len: usize) -> Option<Walk> {
    let header = dec_header(b, len)?;
    if header.file_len_bytes != len as i64 {
        return None;
    }
    let mut w = Walk {
        header,
        n: 0,
        start: [0; MAXR],
        clen: [0; MAXR],
    };
    let mut p = 100usize;
    while p < len {
        if w.n >= MAXR || p + 8 > len {
            return None;
        }
        let recno = get_i32_be(b, p);
        let words = get_i32_be(b, p + 4);
        if recno != (w.n as i32) + 1 || words < 2 {
            return None;
        }
        let clen = words as usize * 2;
        if p + 8 + clen > len {
            return None;
        }
        w.start[w.n] = p;
        w.clen[w.n] = clen;
        w.n += 1;
        p += 8 + clen;
    }
    Some(w)
}

/// Bit-level equality of two f64.
pub fn beq(a: f64, b: f64) -> bool {
    a.to_bits() == b.to_bits()
}

//! C18 — (harnesses not written yet)

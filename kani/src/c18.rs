//! C18 — a shape's announced byte size equals what its serialisation emits.
use crate::env::*;
use crate::model::*;
use crate::refcodec::*;
use shapefile::record::{ConcreteReadableShape, ReadableShape, WritableShape};
use shapefile::*;

/// Part/point counts are concrete per cell; every coordinate is symbolic (ring ends
/// pinned so that closing is decided by constant folding): the size may not depend on them.
pub fn sizes<S: TShape, const N: usize>(parts: &[usize], kinds: &[i32], open: &[usize], closed: &[usize]) {
    let mut m = Model::with_structure(S::CODE, parts);
    let mut i = 0;
    while i < kinds.len() {
        m.pkind[i] = kinds[i];
        i += 1;
    }
    sym_vertices(&mut m);
    let mut i = 0;
    while i < open.len() {
        pin_open(&mut m, open[i], 1.0, 2.0);
        i += 1;
    }
    let mut i = 0;
    while i < closed.len() {
        pin_closed(&mut m, closed[i], [1.0, 2.0, 3.0, 4.0]);
        i += 1;
    }
    assume_xy_not_nan(&m);
    let s = S::build(&m);
    let announced = s.size_in_bytes();
    let mut sink = CountSink::new();
    let r = s.write_to(&mut sink);
    assert!(r.is_ok());
    std::mem::forget(r);
    assert!(sink.bytes == announced);
    // independent expectation from the whitepaper layout for what the constructor built
    let mut built = s.extract();
    built.with_m = may_have_m(S::CODE);
    assert!(content_size(&built) == announced + 4);
    // through the writer: record header content length (16-bit words) and file length
    let mut shp = MemFile::<N>::new();
    {
        let mut w = ShapeWriter::new(&mut shp);
        let r = w.write_shape(&s);
        assert!(r.is_ok());
        std::mem::forget(r);
    }
    assert!((announced + 4) % 2 == 0);
    assert!(get_i32_be(&shp.buf, 104) as usize == (announced + 4) / 2);
    assert!(get_i32_be(&shp.buf, 100) == 1);
    assert!(shp.len == 100 + 8 + 4 + announced);
    assert!(get_i32_be(&shp.buf, 24) as usize * 2 == shp.len);
    kani::cover!(shp.len > 100, "a record was written");
}

macro_rules! cell {
    ($name:ident, $T:ty, $N:expr, $parts:expr, $kinds:expr, $open:expr, $closed:expr) => {
        #[kani::proof]
        #[kani::unwind(22)]
        fn $name() {
            sizes::<$T, $N>(&$parts, &$kinds, &$open, &$closed);
        }
    };
}

// ---- generated grid (see the generator in git history: bin/gen notes in DESIGN.md) ----
// H: tier=quick; sym=every coordinate of 1 vertices (f64, X/Y non-NaN); structure=Point parts [] kinds [] open [] closed []; asserts=size_in_bytes == bytes emitted == whitepaper size; record header content length == (size+4)/2 words; file length field
cell!(c18_q_point, Point, 160, [], [], [], []);
// H: tier=quick; sym=every coordinate of 1 vertices (f64, X/Y non-NaN); structure=PointM parts [] kinds [] open [] closed []; asserts=size_in_bytes == bytes emitted == whitepaper size; record header content length == (size+4)/2 words; file length field
cell!(c18_q_pointm, PointM, 160, [], [], [], []);
// H: tier=quick; sym=every coordinate of 1 vertices (f64, X/Y non-NaN); structure=PointZ parts [] kinds [] open [] closed []; asserts=size_in_bytes == bytes emitted == whitepaper size; record header content length == (size+4)/2 words; file length field
cell!(c18_q_pointz, PointZ, 160, [], [], [], []);
// H: tier=quick; sym=every coordinate of 1 vertices (f64, X/Y non-NaN); structure=Multipoint parts [1] kinds [] open [] closed []; asserts=size_in_bytes == bytes emitted == whitepaper size; record header content length == (size+4)/2 words; file length field
cell!(c18_q_multipoint_1, Multipoint, 192, [1], [], [], []);
// H: tier=thorough; sym=every coordinate of 2 vertices (f64, X/Y non-NaN); structure=Multipoint parts [2] kinds [] open [] closed []; asserts=size_in_bytes == bytes emitted == whitepaper size; record header content length == (size+4)/2 words; file length field
cell!(c18_t_multipoint_2, Multipoint, 224, [2], [], [], []);
// H: tier=thorough; sym=every coordinate of 3 vertices (f64, X/Y non-NaN); structure=Multipoint parts [3] kinds [] open [] closed []; asserts=size_in_bytes == bytes emitted == whitepaper size; record header content length == (size+4)/2 words; file length field
cell!(c18_t_multipoint_3, Multipoint, 224, [3], [], [], []);
// H: tier=quick; sym=every coordinate of 4 vertices (f64, X/Y non-NaN); structure=Multipoint parts [4] kinds [] open [] closed []; asserts=size_in_bytes == bytes emitted == whitepaper size; record header content length == (size+4)/2 words; file length field
cell!(c18_q_multipoint_4, Multipoint, 256, [4], [], [], []);
// H: tier=thorough; sym=every coordinate of 9 vertices (f64, X/Y non-NaN); structure=Multipoint parts [9] kinds [] open [] closed []; asserts=size_in_bytes == bytes emitted == whitepaper size; record header content length == (size+4)/2 words; file length field
cell!(c18_t_multipoint_9, Multipoint, 320, [9], [], [], []);
// H: tier=quick; sym=every coordinate of 1 vertices (f64, X/Y non-NaN); structure=MultipointM parts [1] kinds [] open [] closed []; asserts=size_in_bytes == bytes emitted == whitepaper size; record header content length == (size+4)/2 words; file length field
cell!(c18_q_multipointm_1, MultipointM, 224, [1], [], [], []);
// H: tier=thorough; sym=every coordinate of 2 vertices (f64, X/Y non-NaN); structure=MultipointM parts [2] kinds [] open [] closed []; asserts=size_in_bytes == bytes emitted == whitepaper size; record header content length == (size+4)/2 words; file length field
cell!(c18_t_multipointm_2, MultipointM, 256, [2], [], [], []);
// H: tier=thorough; sym=every coordinate of 3 vertices (f64, X/Y non-NaN); structure=MultipointM parts [3] kinds [] open [] closed []; asserts=size_in_bytes == bytes emitted == whitepaper size; record header content length == (size+4)/2 words; file length field
cell!(c18_t_multipointm_3, MultipointM, 256, [3], [], [], []);
// H: tier=quick; sym=every coordinate of 4 vertices (f64, X/Y non-NaN); structure=MultipointM parts [4] kinds [] open [] closed []; asserts=size_in_bytes == bytes emitted == whitepaper size; record header content length == (size+4)/2 words; file length field
cell!(c18_q_multipointm_4, MultipointM, 288, [4], [], [], []);
// H: tier=thorough; sym=every coordinate of 9 vertices (f64, X/Y non-NaN); structure=MultipointM parts [9] kinds [] open [] closed []; asserts=size_in_bytes == bytes emitted == whitepaper size; record header content length == (size+4)/2 words; file length field
cell!(c18_t_multipointm_9, MultipointM, 416, [9], [], [], []);
// H: tier=quick; sym=every coordinate of 1 vertices (f64, X/Y non-NaN); structure=MultipointZ parts [1] kinds [] open [] closed []; asserts=size_in_bytes == bytes emitted == whitepaper size; record header content length == (size+4)/2 words; file length field
cell!(c18_q_multipointz_1, MultipointZ, 256, [1], [], [], []);
// H: tier=thorough; sym=every coordinate of 2 vertices (f64, X/Y non-NaN); structure=MultipointZ parts [2] kinds [] open [] closed []; asserts=size_in_bytes == bytes emitted == whitepaper size; record header content length == (size+4)/2 words; file length field
cell!(c18_t_multipointz_2, MultipointZ, 288, [2], [], [], []);
// H: tier=thorough; sym=every coordinate of 3 vertices (f64, X/Y non-NaN); structure=MultipointZ parts [3] kinds [] open [] closed []; asserts=size_in_bytes == bytes emitted == whitepaper size; record header content length == (size+4)/2 words; file length field
cell!(c18_t_multipointz_3, MultipointZ, 320, [3], [], [], []);
// H: tier=quick; sym=every coordinate of 4 vertices (f64, X/Y non-NaN); structure=MultipointZ parts [4] kinds [] open [] closed []; asserts=size_in_bytes == bytes emitted == whitepaper size; record header content length == (size+4)/2 words; file length field
cell!(c18_q_multipointz_4, MultipointZ, 352, [4], [], [], []);
// H: tier=thorough; sym=every coordinate of 9 vertices (f64, X/Y non-NaN); structure=MultipointZ parts [9] kinds [] open [] closed []; asserts=size_in_bytes == bytes emitted == whitepaper size; record header content length == (size+4)/2 words; file length field
cell!(c18_t_multipointz_9, MultipointZ, 512, [9], [], [], []);
// H: tier=quick; sym=every coordinate of 2 vertices (f64, X/Y non-NaN); structure=Polyline parts [2] kinds [] open [] closed []; asserts=size_in_bytes == bytes emitted == whitepaper size; record header content length == (size+4)/2 words; file length field
cell!(c18_q_polyline_2, Polyline, 224, [2], [], [], []);
// H: tier=thorough; sym=every coordinate of 3 vertices (f64, X/Y non-NaN); structure=Polyline parts [3] kinds [] open [] closed []; asserts=size_in_bytes == bytes emitted == whitepaper size; record header content length == (size+4)/2 words; file length field
cell!(c18_t_polyline_3, Polyline, 224, [3], [], [], []);
// H: tier=thorough; sym=every coordinate of 4 vertices (f64, X/Y non-NaN); structure=Polyline parts [2, 2] kinds [] open [] closed []; asserts=size_in_bytes == bytes emitted == whitepaper size; record header content length == (size+4)/2 words; file length field
cell!(c18_t_polyline_2_2, Polyline, 256, [2, 2], [], [], []);
// H: tier=quick; sym=every coordinate of 5 vertices (f64, X/Y non-NaN); structure=Polyline parts [2, 3] kinds [] open [] closed []; asserts=size_in_bytes == bytes emitted == whitepaper size; record header content length == (size+4)/2 words; file length field
cell!(c18_q_polyline_2_3, Polyline, 256, [2, 3], [], [], []);
// H: tier=thorough; sym=every coordinate of 6 vertices (f64, X/Y non-NaN); structure=Polyline parts [4, 2] kinds [] open [] closed []; asserts=size_in_bytes == bytes emitted == whitepaper size; record header content length == (size+4)/2 words; file length field
cell!(c18_t_polyline_4_2, Polyline, 288, [4, 2], [], [], []);
// H: tier=thorough; sym=every coordinate of 9 vertices (f64, X/Y non-NaN); structure=Polyline parts [2, 3, 4] kinds [] open [] closed []; asserts=size_in_bytes == bytes emitted == whitepaper size; record header content length == (size+4)/2 words; file length field
cell!(c18_t_polyline_2_3_4, Polyline, 352, [2, 3, 4], [], [], []);
// H: tier=thorough; sym=every coordinate of 9 vertices (f64, X/Y non-NaN); structure=Polyline parts [3, 3, 3] kinds [] open [] closed []; asserts=size_in_bytes == bytes emitted == whitepaper size; record header content length == (size+4)/2 words; file length field
cell!(c18_t_polyline_3_3_3, Polyline, 352, [3, 3, 3], [], [], []);
// H: tier=thorough; sym=every coordinate of 8 vertices (f64, X/Y non-NaN); structure=Polyline parts [2, 2, 2, 2] kinds [] open [] closed []; asserts=size_in_bytes == bytes emitted == whitepaper size; record header content length == (size+4)/2 words; file length field
cell!(c18_t_polyline_2_2_2_2, Polyline, 320, [2, 2, 2, 2], [], [], []);
// H: tier=quick; sym=every coordinate of 2 vertices (f64, X/Y non-NaN); structure=PolylineM parts [2] kinds [] open [] closed []; asserts=size_in_bytes == bytes emitted == whitepaper size; record header content length == (size+4)/2 words; file length field
cell!(c18_q_polylinem_2, PolylineM, 256, [2], [], [], []);
// H: tier=thorough; sym=every coordinate of 3 vertices (f64, X/Y non-NaN); structure=PolylineM parts [3] kinds [] open [] closed []; asserts=size_in_bytes == bytes emitted == whitepaper size; record header content length == (size+4)/2 words; file length field
cell!(c18_t_polylinem_3, PolylineM, 288, [3], [], [], []);
// H: tier=thorough; sym=every coordinate of 4 vertices (f64, X/Y non-NaN); structure=PolylineM parts [2, 2] kinds [] open [] closed []; asserts=size_in_bytes == bytes emitted == whitepaper size; record header content length == (size+4)/2 words; file length field
cell!(c18_t_polylinem_2_2, PolylineM, 288, [2, 2], [], [], []);
// H: tier=quick; sym=every coordinate of 5 vertices (f64, X/Y non-NaN); structure=PolylineM parts [2, 3] kinds [] open [] closed []; asserts=size_in_bytes == bytes emitted == whitepaper size; record header content length == (size+4)/2 words; file length field
cell!(c18_q_polylinem_2_3, PolylineM, 320, [2, 3], [], [], []);
// H: tier=thorough; sym=every coordinate of 6 vertices (f64, X/Y non-NaN); structure=PolylineM parts [4, 2] kinds [] open [] closed []; asserts=size_in_bytes == bytes emitted == whitepaper size; record header content length == (size+4)/2 words; file length field
cell!(c18_t_polylinem_4_2, PolylineM, 352, [4, 2], [], [], []);
// H: tier=thorough; sym=every coordinate of 9 vertices (f64, X/Y non-NaN); structure=PolylineM parts [2, 3, 4] kinds [] open [] closed []; asserts=size_in_bytes == bytes emitted == whitepaper size; record header content length == (size+4)/2 words; file length field
cell!(c18_t_polylinem_2_3_4, PolylineM, 416, [2, 3, 4], [], [], []);
// H: tier=thorough; sym=every coordinate of 9 vertices (f64, X/Y non-NaN); structure=PolylineM parts [3, 3, 3] kinds [] open [] closed []; asserts=size_in_bytes == bytes emitted == whitepaper size; record header content length == (size+4)/2 words; file length field
cell!(c18_t_polylinem_3_3_3, PolylineM, 416, [3, 3, 3], [], [], []);
// H: tier=thorough; sym=every coordinate of 8 vertices (f64, X/Y non-NaN); structure=PolylineM parts [2, 2, 2, 2] kinds [] open [] closed []; asserts=size_in_bytes == bytes emitted == whitepaper size; record header content length == (size+4)/2 words; file length field
cell!(c18_t_polylinem_2_2_2_2, PolylineM, 416, [2, 2, 2, 2], [], [], []);
// H: tier=quick; sym=every coordinate of 2 vertices (f64, X/Y non-NaN); structure=PolylineZ parts [2] kinds [] open [] closed []; asserts=size_in_bytes == bytes emitted == whitepaper size; record header content length == (size+4)/2 words; file length field
cell!(c18_q_polylinez_2, PolylineZ, 288, [2], [], [], []);
// H: tier=thorough; sym=every coordinate of 3 vertices (f64, X/Y non-NaN); structure=PolylineZ parts [3] kinds [] open [] closed []; asserts=size_in_bytes == bytes emitted == whitepaper size; record header content length == (size+4)/2 words; file length field
cell!(c18_t_polylinez_3, PolylineZ, 320, [3], [], [], []);
// H: tier=thorough; sym=every coordinate of 4 vertices (f64, X/Y non-NaN); structure=PolylineZ parts [2, 2] kinds [] open [] closed []; asserts=size_in_bytes == bytes emitted == whitepaper size; record header content length == (size+4)/2 words; file length field
cell!(c18_t_polylinez_2_2, PolylineZ, 352, [2, 2], [], [], []);
// H: tier=quick; sym=every coordinate of 5 vertices (f64, X/Y non-NaN); structure=PolylineZ parts [2, 3] kinds [] open [] closed []; asserts=size_in_bytes == bytes emitted == whitepaper size; record header content length == (size+4)/2 words; file length field
cell!(c18_q_polylinez_2_3, PolylineZ, 384, [2, 3], [], [], []);
// H: tier=thorough; sym=every coordinate of 6 vertices (f64, X/Y non-NaN); structure=PolylineZ parts [4, 2] kinds [] open [] closed []; asserts=size_in_bytes == bytes emitted == whitepaper size; record header content length == (size+4)/2 words; file length field
cell!(c18_t_polylinez_4_2, PolylineZ, 416, [4, 2], [], [], []);
// H: tier=thorough; sym=every coordinate of 9 vertices (f64, X/Y non-NaN); structure=PolylineZ parts [2, 3, 4] kinds [] open [] closed []; asserts=size_in_bytes == bytes emitted == whitepaper size; record header content length == (size+4)/2 words; file length field
cell!(c18_t_polylinez_2_3_4, PolylineZ, 512, [2, 3, 4], [], [], []);
// H: tier=thorough; sym=every coordinate of 9 vertices (f64, X/Y non-NaN); structure=PolylineZ parts [3, 3, 3] kinds [] open [] closed []; asserts=size_in_bytes == bytes emitted == whitepaper size; record header content length == (size+4)/2 words; file length field
cell!(c18_t_polylinez_3_3_3, PolylineZ, 512, [3, 3, 3], [], [], []);
// H: tier=thorough; sym=every coordinate of 8 vertices (f64, X/Y non-NaN); structure=PolylineZ parts [2, 2, 2, 2] kinds [] open [] closed []; asserts=size_in_bytes == bytes emitted == whitepaper size; record header content length == (size+4)/2 words; file length field
cell!(c18_t_polylinez_2_2_2_2, PolylineZ, 480, [2, 2, 2, 2], [], [], []);
// H: tier=quick; sym=every coordinate of 4 vertices (f64, X/Y non-NaN); structure=Polygon parts [4] kinds [0] open [] closed [0]; asserts=size_in_bytes == bytes emitted == whitepaper size; record header content length == (size+4)/2 words; file length field
cell!(c18_q_polygon_c4, Polygon, 256, [4], [0], [], [0]);
// H: tier=thorough; sym=every coordinate of 3 vertices (f64, X/Y non-NaN); structure=Polygon parts [3] kinds [0] open [0] closed []; asserts=size_in_bytes == bytes emitted == whitepaper size; record header content length == (size+4)/2 words; file length field
cell!(c18_t_polygon_o3, Polygon, 256, [3], [0], [0], []);
// H: tier=thorough; sym=every coordinate of 8 vertices (f64, X/Y non-NaN); structure=Polygon parts [4, 4] kinds [0, 0] open [] closed [0, 1]; asserts=size_in_bytes == bytes emitted == whitepaper size; record header content length == (size+4)/2 words; file length field
cell!(c18_t_polygon_c4_c4, Polygon, 320, [4, 4], [0, 0], [], [0, 1]);
// H: tier=quick; sym=every coordinate of 7 vertices (f64, X/Y non-NaN); structure=Polygon parts [3, 4] kinds [0, 0] open [0] closed [1]; asserts=size_in_bytes == bytes emitted == whitepaper size; record header content length == (size+4)/2 words; file length field
cell!(c18_q_polygon_o3_c4, Polygon, 320, [3, 4], [0, 0], [0], [1]);
// H: tier=thorough; sym=every coordinate of 12 vertices (f64, X/Y non-NaN); structure=Polygon parts [4, 3, 5] kinds [0, 0, 0] open [1] closed [0, 2]; asserts=size_in_bytes == bytes emitted == whitepaper size; record header content length == (size+4)/2 words; file length field
cell!(c18_t_polygon_c4_o3_c5, Polygon, 416, [4, 3, 5], [0, 0, 0], [1], [0, 2]);
// H: tier=thorough; sym=every coordinate of 1 vertices (f64, X/Y non-NaN); structure=Polygon parts [1] kinds [0] open [] closed [0]; asserts=size_in_bytes == bytes emitted == whitepaper size; record header content length == (size+4)/2 words; file length field
cell!(c18_t_polygon_c1, Polygon, 192, [1], [0], [], [0]);
// H: tier=thorough; sym=every coordinate of 2 vertices (f64, X/Y non-NaN); structure=Polygon parts [2] kinds [0] open [0] closed []; asserts=size_in_bytes == bytes emitted == whitepaper size; record header content length == (size+4)/2 words; file length field
cell!(c18_t_polygon_o2, Polygon, 224, [2], [0], [0], []);
// H: tier=quick; sym=every coordinate of 4 vertices (f64, X/Y non-NaN); structure=PolygonM parts [4] kinds [0] open [] closed [0]; asserts=size_in_bytes == bytes emitted == whitepaper size; record header content length == (size+4)/2 words; file length field
cell!(c18_q_polygonm_c4, PolygonM, 288, [4], [0], [], [0]);
// H: tier=thorough; sym=every coordinate of 3 vertices (f64, X/Y non-NaN); structure=PolygonM parts [3] kinds [0] open [0] closed []; asserts=size_in_bytes == bytes emitted == whitepaper size; record header content length == (size+4)/2 words; file length field
cell!(c18_t_polygonm_o3, PolygonM, 288, [3], [0], [0], []);
// H: tier=thorough; sym=every coordinate of 8 vertices (f64, X/Y non-NaN); structure=PolygonM parts [4, 4] kinds [0, 0] open [] closed [0, 1]; asserts=size_in_bytes == bytes emitted == whitepaper size; record header content length == (size+4)/2 words; file length field
cell!(c18_t_polygonm_c4_c4, PolygonM, 384, [4, 4], [0, 0], [], [0, 1]);
// H: tier=quick; sym=every coordinate of 7 vertices (f64, X/Y non-NaN); structure=PolygonM parts [3, 4] kinds [0, 0] open [0] closed [1]; asserts=size_in_bytes == bytes emitted == whitepaper size; record header content length == (size+4)/2 words; file length field
cell!(c18_q_polygonm_o3_c4, PolygonM, 384, [3, 4], [0, 0], [0], [1]);
// H: tier=thorough; sym=every coordinate of 12 vertices (f64, X/Y non-NaN); structure=PolygonM parts [4, 3, 5] kinds [0, 0, 0] open [1] closed [0, 2]; asserts=size_in_bytes == bytes emitted == whitepaper size; record header content length == (size+4)/2 words; file length field
cell!(c18_t_polygonm_c4_o3_c5, PolygonM, 512, [4, 3, 5], [0, 0, 0], [1], [0, 2]);
// H: tier=thorough; sym=every coordinate of 1 vertices (f64, X/Y non-NaN); structure=PolygonM parts [1] kinds [0] open [] closed [0]; asserts=size_in_bytes == bytes emitted == whitepaper size; record header content length == (size+4)/2 words; file length field
cell!(c18_t_polygonm_c1, PolygonM, 224, [1], [0], [], [0]);
// H: tier=thorough; sym=every coordinate of 2 vertices (f64, X/Y non-NaN); structure=PolygonM parts [2] kinds [0] open [0] closed []; asserts=size_in_bytes == bytes emitted == whitepaper size; record header content length == (size+4)/2 words; file length field
cell!(c18_t_polygonm_o2, PolygonM, 288, [2], [0], [0], []);
// H: tier=quick; sym=every coordinate of 4 vertices (f64, X/Y non-NaN); structure=PolygonZ parts [4] kinds [0] open [] closed [0]; asserts=size_in_bytes == bytes emitted == whitepaper size; record header content length == (size+4)/2 words; file length field
cell!(c18_q_polygonz_c4, PolygonZ, 352, [4], [0], [], [0]);
// H: tier=thorough; sym=every coordinate of 3 vertices (f64, X/Y non-NaN); structure=PolygonZ parts [3] kinds [0] open [0] closed []; asserts=size_in_bytes == bytes emitted == whitepaper size; record header content length == (size+4)/2 words; file length field
cell!(c18_t_polygonz_o3, PolygonZ, 352, [3], [0], [0], []);
// H: tier=thorough; sym=every coordinate of 8 vertices (f64, X/Y non-NaN); structure=PolygonZ parts [4, 4] kinds [0, 0] open [] closed [0, 1]; asserts=size_in_bytes == bytes emitted == whitepaper size; record header content length == (size+4)/2 words; file length field
cell!(c18_t_polygonz_c4_c4, PolygonZ, 480, [4, 4], [0, 0], [], [0, 1]);
// H: tier=quick; sym=every coordinate of 7 vertices (f64, X/Y non-NaN); structure=PolygonZ parts [3, 4] kinds [0, 0] open [0] closed [1]; asserts=size_in_bytes == bytes emitted == whitepaper size; record header content length == (size+4)/2 words; file length field
cell!(c18_q_polygonz_o3_c4, PolygonZ, 480, [3, 4], [0, 0], [0], [1]);
// H: tier=thorough; sym=every coordinate of 12 vertices (f64, X/Y non-NaN); structure=PolygonZ parts [4, 3, 5] kinds [0, 0, 0] open [1] closed [0, 2]; asserts=size_in_bytes == bytes emitted == whitepaper size; record header content length == (size+4)/2 words; file length field
cell!(c18_t_polygonz_c4_o3_c5, PolygonZ, 640, [4, 3, 5], [0, 0, 0], [1], [0, 2]);
// H: tier=thorough; sym=every coordinate of 1 vertices (f64, X/Y non-NaN); structure=PolygonZ parts [1] kinds [0] open [] closed [0]; asserts=size_in_bytes == bytes emitted == whitepaper size; record header content length == (size+4)/2 words; file length field
cell!(c18_t_polygonz_c1, PolygonZ, 256, [1], [0], [], [0]);
// H: tier=thorough; sym=every coordinate of 2 vertices (f64, X/Y non-NaN); structure=PolygonZ parts [2] kinds [0] open [0] closed []; asserts=size_in_bytes == bytes emitted == whitepaper size; record header content length == (size+4)/2 words; file length field
cell!(c18_t_polygonz_o2, PolygonZ, 320, [2], [0], [0], []);
// H: tier=quick; sym=every coordinate of 3 vertices (f64, X/Y non-NaN); structure=Multipatch parts [3] kinds [0] open [] closed []; asserts=size_in_bytes == bytes emitted == whitepaper size; record header content length == (size+4)/2 words; file length field
cell!(c18_q_multipatch_k0x3, Multipatch, 320, [3], [0], [], []);
// H: tier=thorough; sym=every coordinate of 3 vertices (f64, X/Y non-NaN); structure=Multipatch parts [3] kinds [1] open [] closed []; asserts=size_in_bytes == bytes emitted == whitepaper size; record header content length == (size+4)/2 words; file length field
cell!(c18_t_multipatch_k1x3, Multipatch, 320, [3], [1], [], []);
// H: tier=quick; sym=every coordinate of 4 vertices (f64, X/Y non-NaN); structure=Multipatch parts [4] kinds [2] open [] closed [0]; asserts=size_in_bytes == bytes emitted == whitepaper size; record header content length == (size+4)/2 words; file length field
cell!(c18_q_multipatch_k2c4, Multipatch, 352, [4], [2], [], [0]);
// H: tier=thorough; sym=every coordinate of 3 vertices (f64, X/Y non-NaN); structure=Multipatch parts [3] kinds [3] open [0] closed []; asserts=size_in_bytes == bytes emitted == whitepaper size; record header content length == (size+4)/2 words; file length field
cell!(c18_t_multipatch_k3o3, Multipatch, 352, [3], [3], [0], []);
// H: tier=quick; sym=every coordinate of 7 vertices (f64, X/Y non-NaN); structure=Multipatch parts [3, 4] kinds [0, 4] open [] closed [1]; asserts=size_in_bytes == bytes emitted == whitepaper size; record header content length == (size+4)/2 words; file length field
cell!(c18_q_multipatch_k0x3_k4c4, Multipatch, 448, [3, 4], [0, 4], [], [1]);
// H: tier=thorough; sym=every coordinate of 6 vertices (f64, X/Y non-NaN); structure=Multipatch parts [3, 3] kinds [1, 5] open [1] closed []; asserts=size_in_bytes == bytes emitted == whitepaper size; record header content length == (size+4)/2 words; file length field
cell!(c18_t_multipatch_k1x3_k5o3, Multipatch, 448, [3, 3], [1, 5], [1], []);
// H: tier=thorough; sym=every coordinate of 10 vertices (f64, X/Y non-NaN); structure=Multipatch parts [4, 3, 3] kinds [2, 3, 0] open [1] closed [0]; asserts=size_in_bytes == bytes emitted == whitepaper size; record header content length == (size+4)/2 words; file length field
cell!(c18_t_multipatch_k2c4_k3o3_k0x3, Multipatch, 576, [4, 3, 3], [2, 3, 0], [1], [0]);
// H: tier=thorough; sym=every coordinate of 14 vertices (f64, X/Y non-NaN); structure=Multipatch parts [3, 4, 3, 4] kinds [5, 4, 1, 2] open [0] closed [1, 3]; asserts=size_in_bytes == bytes emitted == whitepaper size; record header content length == (size+4)/2 words; file length field
cell!(c18_t_multipatch_k5o3_k4c4_k1x3_k2c4, Multipatch, 736, [3, 4, 3, 4], [5, 4, 1, 2], [0], [1, 3]);

//! C19 — shape type codes form the ESRI table, for every 32-bit value.
use crate::env::*;
use crate::refcodec::*;
use shapefile::header::Header;
use shapefile::*;
use std::fmt::Write as _;

fn in_table(code: i32) -> bool {
    matches!(code, 0 | 1 | 3 | 5 | 8 | 11 | 13 | 15 | 18 | 21 | 23 | 25 | 28 | 31)
}

// H: tier=quick; sym=code:i32 (all 2^32); asserts=from(code) is Some(t) with t as i32 == code iff code in the 14-element ESRI set
#[kani::proof]
fn c19_q_code_bijection() {
    let code: i32 = kani::any();
    match ShapeType::from(code) {
        Some(t) => {
            assert!(in_table(code));
            assert!(t as i32 == code);
            kani::cover!(code == 31);
        }
        None => {
            assert!(!in_table(code));
            kani::cover!(code == 2);
        }
    }
}

// H: tier=quick; sym=code:i32 restricted to the table; asserts=has_z/has_m/is_multipart equal the literal ESRI table
#[kani::proof]
fn c19_q_predicates() {
    let code: i32 = kani::any();
    kani::assume(in_table(code));
    let t = ShapeType::from(code).unwrap();
    let z = matches!(code, 11 | 13 | 15 | 18 | 31);
    let m = matches!(code, 11 | 13 | 15 | 18 | 21 | 23 | 25 | 28);
    assert!(t.has_z() == z);
    assert!(t.has_m() == m);
    // multipart: polyline, polygon and multipatch families; not multipart: point and
    // multipoint families; no claim for the null shape
    if matches!(code, 3 | 5 | 13 | 15 | 23 | 25 | 31) {
        assert!(t.is_multipart());
    }
    if matches!(code, 1 | 11 | 21 | 8 | 18 | 28) {
        assert!(!t.is_multipart());
    }
    kani::cover!(t.has_z() && !t.has_m());
}

struct Buf {
    b: [u8; 16],
    n: usize,
}
impl std::fmt::Write for Buf {
    fn write_str(&mut self, s: &str) -> std::fmt::Result {
        let bytes = s.as_bytes();
        let mut i = 0;
        while i < bytes.len() {
            if self.n >= 16 {
                return Err(std::fmt::Error);
            }
            self.b[self.n] = bytes[i];
            self.n += 1;
            i += 1;
        }
        Ok(())
    }
}
fn name_of(code: i32) -> &'static [u8] {
    match code {
        0 => b"NullShape",
        1 => b"Point",
        3 => b"Polyline",
        5 => b"Polygon",
        8 => b"Multipoint",
        11 => b"PointZ",
        13 => b"PolylineZ",
        15 => b"PolygonZ",
        18 => b"MultipointZ",
        21 => b"PointM",
        23 => b"PolylineM",
        25 => b"PolygonM",
        28 => b"MultipointM",
        _ => b"Multipatch",
    }
}

// H: tier=quick; sym=none (concrete loop over the 14 types); asserts=Display name equals the literal ESRI name
#[kani::proof]
#[kani::unwind(20)]
fn c19_q_display_names() {
    let mut k = 0;
    while k < 14 {
        let code = ALL_CODES[k];
        let t = ShapeType::from(code).unwrap();
        let mut buf = Buf { b: [0; 16], n: 0 };
        let r = write!(buf, "{}", t);
        assert!(r.is_ok());
        let want = name_of(code);
        assert!(buf.n == want.len());
        let mut i = 0;
        while i < want.len() {
            assert!(buf.b[i] == want[i]);
            i += 1;
        }
        k += 1;
    }
    kani::cover!(true, "14 names compared");
}

// H: tier=quick; sym=code:i32 in header bytes 32..36, box bytes symbolic; asserts=Header::read_from is Err(InvalidShapeType(code)) exactly for codes outside the table, Ok with the matching type otherwise
#[kani::proof]
#[kani::unwind(22)]
fn c19_q_header_code() {
    let code: i32 = kani::any();
    let mut img = [0u8; 100];
    let bbox: [f64; 8] = [0.0; 8];
    enc_header(&mut img, 100, 1, &bbox);
    put_i32_le(&mut img, 32, code);
    let mut src = MemSource::new(&img);
    let r = Header::read_from(&mut src);
    match &r {
        Ok(h) => {
            assert!(in_table(code));
            assert!(h.shape_type as i32 == code);
        }
        Err(Error::InvalidShapeType(c)) => {
            assert!(!in_table(code));
            assert!(*c == code);
        }
        Err(_) => assert!(false, "unexpected error kind"),
    }
    kani::cover!(r.is_ok());
    kani::cover!(r.is_err());
    std::mem::forget(r);
}

// H: tier=quick; sym=code:i32 as record type code (all 2^32), 16 payload bytes symbolic; asserts=Point::read_from gives Err(InvalidShapeType(code)) exactly for codes outside the table, MismatchShapeType{requested Point, actual code} for the 13 other table codes, Ok only for code 1
#[kani::proof]
#[kani::unwind(22)]
fn c19_q_record_code() {
    let code: i32 = kani::any();
    let mut img = [0u8; 20];
    put_i32_le(&mut img, 0, code);
    let mut i = 4;
    while i < 20 {
        img[i] = kani::any();
        i += 1;
    }
    let mut src = MemSource::new(&img);
    let r = Point::read_from(&mut src, 20);
    match &r {
        Ok(_) => assert!(code == 1),
        Err(Error::InvalidShapeType(c)) => {
            assert!(!in_table(code) && *c == code);
        }
        Err(Error::MismatchShapeType { requested, actual }) => {
            assert!(in_table(code) && code != 1);
            assert!(*requested as i32 == 1 && *actual as i32 == code);
        }
        Err(_) => assert!(false, "unexpected error kind"),
    }
    kani::cover!(r.is_ok());
    kani::cover!(matches!(r, Err(Error::InvalidShapeType(_))));
    kani::cover!(matches!(r, Err(Error::MismatchShapeType { .. })));
    std::mem::forget(r);
}

#![cfg_attr(kani, feature(read_buf, core_io_borrowed_buf))]
#![allow(dead_code)]
#![allow(unused_imports)]
pub mod env;
pub mod model;
pub mod refcodec;

#[cfg(all(kani, feature = "c00"))]
mod c00;
#[cfg(all(kani, any(feature = "c01", feature = "c04", feature = "c03", feature = "c09", feature = "c11", feature = "c13", feature = "c14", feature = "c15")))]
mod c01;
#[cfg(all(kani, feature = "c02"))]
mod c02;
#[cfg(all(kani, feature = "c03"))]
mod c03;
#[cfg(all(kani, feature = "c04"))]
mod c04;
#[cfg(all(kani, feature = "c05"))]
mod c05;
#[cfg(all(kani, feature = "c06"))]
mod c06;
#[cfg(all(kani, any(feature = "c07", feature = "c17")))]
mod c07;
#[cfg(all(kani, feature = "c08"))]
mod c08;
#[cfg(all(kani, feature = "c09"))]
mod c09;
#[cfg(all(kani, feature = "c10"))]
mod c10;
#[cfg(all(kani, feature = "c11"))]
mod c11;
#[cfg(all(kani, feature = "c12"))]
mod c12;
#[cfg(all(kani, any(feature = "c13", feature = "c03", feature = "c14", feature = "c15")))]
mod c13;
#[cfg(all(kani, feature = "c14"))]
mod c14;
#[cfg(all(kani, feature = "c15"))]
mod c15;
#[cfg(all(kani, feature = "c16"))]
mod c16;
#[cfg(all(kani, feature = "c17"))]
mod c17;
#[cfg(all(kani, feature = "c18"))]
mod c18;
#[cfg(all(kani, feature = "c19"))]
mod c19;

#[cfg(all(test, feature = "c17"))]
#[global_allocator]
static C17_ALLOC: env::native_alloc::Counting = env::native_alloc::Counting;

#![allow(dead_code)]
#![allow(unused_imports)]
pub mod env;
pub mod model;
pub mod refcodec;

#[cfg(all(kani, feature = "c01"))]
mod c01;
#[cfg(all(kani, feature = "c19"))]
mod c19;

//! scratch probes (not part of any check)
use crate::env::*;
use crate::model::*;
use crate::refcodec::*;
use shapefile::*;

fn mk(flag: bool, x: f64) -> Result<Shape, Error> {
    if flag {
        Err(Error::MissingDbf)
    } else {
        Ok(Shape::Polyline(Polyline::new(vec![Point::new(x, 1.0), Point::new(2.0, 3.0)])))
    }
}

#[kani::proof]
#[kani::unwind(22)]
fn p_move_conc() {
    let x = any_f64();
    let r = mk(false, x);
    let sh = match r {
        Ok(s) => s,
        Err(e) => {
            std::mem::forget(e);
            return;
        }
    };
    match &sh {
        Shape::Polyline(p) => assert!(beq(p.parts()[0][0].x, x)),
        _ => assert!(false),
    }
    std::mem::forget(sh);
}

#[kani::proof]
#[kani::unwind(22)]
fn p_move_sym() {
    let x = any_f64();
    let flag: bool = kani::any();
    let r = mk(flag, x);
    let sh = match r {
        Ok(s) => s,
        Err(e) => {
            std::mem::forget(e);
            return;
        }
    };
    match &sh {
        Shape::Polyline(p) => assert!(beq(p.parts()[0][0].x, x)),
        _ => assert!(false),
    }
    std::mem::forget(sh);
}

fn mk_i(flag: bool, x: f64) -> Result<Shape, i32> {
    if flag {
        Err(3)
    } else {
        Ok(Shape::Polyline(Polyline::new(vec![Point::new(x, 1.0), Point::new(2.0, 3.0)])))
    }
}
fn mk_o(flag: bool, x: f64) -> Option<Shape> {
    if flag {
        None
    } else {
        Some(Shape::Polyline(Polyline::new(vec![Point::new(x, 1.0), Point::new(2.0, 3.0)])))
    }
}
fn mk_t(flag: bool, x: f64) -> Result<(i32, Shape), Error> {
    if flag {
        Err(Error::MissingDbf)
    } else {
        Ok((1, Shape::Polyline(Polyline::new(vec![Point::new(x, 1.0), Point::new(2.0, 3.0)]))))
    }
}
fn chk(sh: &Shape, x: f64) {
    match sh {
        Shape::Polyline(p) => assert!(beq(p.parts()[0][0].x, x)),
        _ => assert!(false),
    }
}
#[kani::proof]
#[kani::unwind(22)]
fn p_move_i32err() {
    let x = any_f64();
    let r = mk_i(false, x);
    let sh = match r {
        Ok(s) => s,
        Err(_) => return,
    };
    chk(&sh, x);
    std::mem::forget(sh);
}
#[kani::proof]
#[kani::unwind(22)]
fn p_move_option() {
    let x = any_f64();
    let r = mk_o(false, x);
    let sh = match r {
        Some(s) => s,
        None => return,
    };
    chk(&sh, x);
    std::mem::forget(sh);
}
#[kani::proof]
#[kani::unwind(22)]
fn p_move_tuple() {
    let x = any_f64();
    let r = mk_t(false, x);
    let (_, sh) = match r {
        Ok(s) => s,
        Err(e) => {
            std::mem::forget(e);
            return;
        }
    };
    chk(&sh, x);
    std::mem::forget(sh);
}
#[kani::proof]
#[kani::unwind(22)]
fn p_rewrap() {
    // what ShapeIterator::next does: move out of Result<(hdr, S)> and re-wrap in Some(Ok(..))
    let x = any_f64();
    let r = mk_t(false, x);
    let item: Option<Result<Shape, Error>> = match r {
        Ok((_, s)) => Some(Ok(s)),
        Err(e) => Some(Err(e)),
    };
    match &item {
        Some(Ok(sh)) => chk(sh, x),
        _ => assert!(false),
    }
    std::mem::forget(item);
}

#[kani::proof]
#[kani::unwind(34)]
fn p_fault_small() {
    let a = Point::new(any_f64(), any_f64());
    let k: u32 = kani::any();
    kani::assume(k <= 40);
    let persistent: bool = kani::any();
    faults_reset();
    let mut shp = FaultFile::<160>::new(k, persistent);
    {
        let mut w = ShapeWriter::new(&mut shp);
        let f0 = faults_fired();
        let r = w.write_shape(&a);
        if faults_fired() > f0 {
            assert!(r.is_err());
        } else {
            assert!(r.is_ok());
        }
        let ok = r.is_ok();
        std::mem::forget(r);
        if ok {
            let f0 = faults_fired();
            let r = w.finalize();
            if faults_fired() > f0 {
                assert!(r.is_err());
            } else {
                assert!(r.is_ok());
            }
            std::mem::forget(r);
        }
    }
    kani::cover!(shp.fired);
}

#[kani::proof]
#[kani::unwind(34)]
fn p_fold() {
    use std::io::Write;
    let cut_op: u32 = kani::any();
    let cut_bytes: usize = kani::any();
    kani::assume(cut_op <= 10 && cut_bytes <= 20);
    let mut f = CrashFile::<64>::new(cut_op, cut_bytes);
    let mut i = 0;
    while i < 8 {
        let v: u32 = kani::any();
        let _ = f.write_all(&v.to_be_bytes());
        i += 1;
    }
    let mut img = f.persisted;
    put_i32_be(&mut img, 24, 5);
    let mut src = MemSource::with_len(&img, f.plen);
    let h = shapefile::header::Header::read_from(&mut src);
    std::mem::forget(h);
    let n = get_i32_be(&img, 24);
    let mut k = 0;
    let mut acc = 0;
    while k < n {
        acc += 1;
        k += 1;
    }
    assert!(acc == 5);
}

#[kani::proof]
#[kani::unwind(34)]
fn p_fsrc_open() {
    let mut img = [0u8; 128];
    enc_header(&mut img, 128, T_POINT, &[0.0; 8]);
    let k: u32 = kani::any();
    kani::assume(k <= 30);
    faults_reset();
    let src = FaultSource::new(&img[..128], k, false);
    let rd = ShapeReader::new(src);
    if faults_fired() > 0 {
        assert!(rd.is_err());
    } else {
        assert!(rd.is_ok());
    }
    std::mem::forget(rd);
}

#[kani::proof]
#[kani::unwind(34)]
fn p_fsrc_direct() {
    use std::io::Read;
    let mut img = [0u8; 128];
    enc_header(&mut img, 128, T_POINT, &[0.0; 8]);
    let d: u32 = kani::any();
    kani::assume(d <= 3);
    faults_reset();
    let mut src = FaultSource::new(&img[..128], 2 + d, false);
    src.armed_after = 2;
    let mut b = [0u8; 4];
    let r = src.read_exact(&mut b);
    std::mem::forget(r);
    let r = src.read_exact(&mut b);
    std::mem::forget(r);
    // symbolic from here
    let r = src.read_exact(&mut b);
    std::mem::forget(r);
    let r = src.read_exact(&mut b);
    std::mem::forget(r);
    let mut c = [0u8; 8];
    let r = src.read_exact(&mut c);
    std::mem::forget(r);
    assert!(src.s.pos == 24);
}

#[kani::proof]
#[kani::unwind(34)]
fn p_fsrc_record() {
    use shapefile::record::ReadableShape;
    let mut img = [0u8; 64];
    let mut m = Model::with_structure(T_POINT, &[]);
    sym_vertices(&mut m);
    let e = enc_content(&m, &mut img, 0);
    let d: u32 = kani::any();
    kani::assume(d <= 5);
    faults_reset();
    let mut src = FaultSource::new(&img[..e], d, false);
    let r = Point::read_from(&mut src, e as i32);
    if faults_fired() > 0 {
        assert!(matches!(r, Err(Error::IoError(_))));
    } else {
        assert!(r.is_ok());
    }
    std::mem::forget(r);
}

fn p_alloc_variant(reset: usize, final_check: bool) {
    use shapefile::record::ReadableShape;
    let mut img: [u8; 72] = kani::any();
    put_i32_le(&mut img, 0, T_MULTIPOINT);
    let record_size: i32 = kani::any();
    alloc_reset(reset);
    let mut src = MemSource::new(&img);
    let r = Multipoint::read_from(&mut src, record_size);
    if final_check {
        alloc_check_bound();
    }
    kani::cover!(r.is_err());
    std::mem::forget(r);
}
#[kani::proof]
#[kani::unwind(12)]
#[kani::stub(std::vec::Vec::with_capacity, crate::env::with_capacity_model)]
fn p_alloc_a() {
    p_alloc_variant(72, false);
}
#[kani::proof]
#[kani::unwind(12)]
#[kani::stub(std::vec::Vec::with_capacity, crate::env::with_capacity_model)]
fn p_alloc_b() {
    p_alloc_variant(0, true);
}
#[kani::proof]
#[kani::unwind(12)]
#[kani::stub(std::vec::Vec::with_capacity, crate::env::with_capacity_model)]
fn p_alloc_c() {
    p_alloc_variant(72, true);
}

#[kani::proof]
#[kani::unwind(12)]
fn p_vecmodel() {
    let cap: usize = kani::any();
    let mut v: Vec<Point> = with_capacity_model(cap);
    let n: u8 = kani::any();
    let mut i = 0;
    while i < n && i < 6 {
        v.push(Point::new(1.0, 2.0));
        i += 1;
    }
    assert!(v.len() <= 6);
    std::mem::forget(v);
}

#[kani::proof]
fn p_vec_basic1() {
    let mut v: Vec<Point> = Vec::new();
    v.push(Point::new(1.0, 2.0));
    assert!(v.len() == 1);
    std::mem::forget(v);
}
#[kani::proof]
fn p_vec_basic2() {
    let mut v: Vec<Point> = Vec::new();
    v.reserve_exact(16);
    v.push(Point::new(1.0, 2.0));
    assert!(v.len() == 1);
    std::mem::forget(v);
}
#[kani::proof]
fn p_vec_basic3() {
    let mut v: Vec<Point> = Vec::with_capacity(16);
    v.push(Point::new(1.0, 2.0));
    assert!(v.len() == 1);
    std::mem::forget(v);
}

#[kani::proof]
#[kani::unwind(12)]
fn p_vec_loop() {
    let mut v: Vec<Point> = Vec::new();
    v.reserve_exact(16);
    let n: u8 = kani::any();
    let mut i = 0;
    while i < n && i < 6 {
        v.push(Point::new(1.0, 2.0));
        i += 1;
    }
    assert!(v.len() <= 6);
    std::mem::forget(v);
}
#[kani::proof]
#[kani::unwind(12)]
fn p_vec_loop_wc() {
    let mut v: Vec<Point> = Vec::with_capacity(16);
    let n: u8 = kani::any();
    let mut i = 0;
    while i < n && i < 6 {
        v.push(Point::new(1.0, 2.0));
        i += 1;
    }
    assert!(v.len() <= 6);
    std::mem::forget(v);
}

fn wcm2<T>(cap: usize) -> Vec<T> {
    let sz = core::mem::size_of::<T>();
    assert!(sz == 0 || cap <= (isize::MAX as usize) / sz, "capacity overflow");
    let mut v = Vec::new();
    v.reserve_exact(16);
    v
}
fn wcm3<T>(cap: usize) -> Vec<T> {
    let sz = core::mem::size_of::<T>();
    if !(sz == 0 || cap <= (isize::MAX as usize) / sz) {
        panic!("capacity overflow");
    }
    let mut v = Vec::new();
    v.reserve_exact(16);
    v
}
#[kani::proof]
#[kani::unwind(12)]
fn p_wcm2() {
    let cap: usize = kani::any();
    let mut v: Vec<Point> = wcm2(cap);
    v.push(Point::new(1.0, 2.0));
    std::mem::forget(v);
}
#[kani::proof]
#[kani::unwind(12)]
fn p_wcm3() {
    let cap: usize = kani::any();
    let mut v: Vec<Point> = wcm3(cap);
    v.push(Point::new(1.0, 2.0));
    std::mem::forget(v);
}

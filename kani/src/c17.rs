//! C17 — memory requested while reading is proportional to the input size.
//!
//! The C07 harnesses re-run with the allocation bound switched on in the `Vec::with_capacity`
//! model (env::with_capacity_model_bounded): every pre-sizing request made while decoding must stay
//! below 64 x (input bytes) + 4096. Growth by `push` is amortised (at most 2x the bytes
//! actually read: std's contract, an assumption here).
use crate::c07::*;
use crate::env::*;
use crate::model::*;
use crate::refcodec::*;
use shapefile::record::{ConcreteReadableShape, ReadableShape, WritableShape};
use shapefile::*;

macro_rules! alloc {
    ($name:ident, $T:ty, $B:expr, $code:expr, $uw:expr) => {
        #[kani::proof]
        #[kani::unwind($uw)]
        #[kani::stub(std::vec::Vec::with_capacity, crate::env::with_capacity_model_bounded)]
        fn $name() {
            decode_any::<$T, $B>($code, true);
        }
    };
}
// H: tier=quick; unwind=12; sym=record_size: i32 (all values), 72 content bytes incl. the point count; call=Multipoint::read_from; asserts=every Vec::with_capacity request <= 64 x 72 + 4096 bytes (counts consistent with a huge declared record size must not pre-size a vector)
alloc!(c17_q_alloc_multipoint, Multipoint, 72, T_MULTIPOINT, 12);
// H: tier=quick; unwind=20; sym=record_size: i32, 104 content bytes; call=MultipointM::read_from; asserts=as above
alloc!(c17_q_alloc_multipointm, MultipointM, 104, T_MULTIPOINTM, 20);
// H: tier=thorough; unwind=24; sym=record_size: i32, 120 content bytes; call=MultipointZ::read_from; asserts=as above
alloc!(c17_t_alloc_multipointz, MultipointZ, 120, T_MULTIPOINTZ, 24);

macro_rules! alloc_off {
    ($name:ident, $T:ty, $B:expr, $uw:expr) => {
        #[kani::proof]
        #[kani::unwind($uw)]
        #[kani::stub(std::vec::Vec::with_capacity, crate::env::with_capacity_model_bounded)]
        fn $name() {
            decode_offsets_any::<$T, $B>(true);
        }
    };
}
// H: tier=quick; unwind=5; sym=2 part offsets (any i32) and payload of a Polyline record with concrete counts (2 parts, 2 points); asserts=per-part vectors are pre-sized from offset differences: every request <= 64 x record bytes + 4096
alloc_off!(c17_q_alloc_polyline_offsets, Polyline, 84, 5);
// H: tier=manual; unwind=9; sym=2 part offsets, patch kinds and payload of a Multipatch record with concrete counts; asserts=as above; note=not run by any tier: the multipatch decoder on arbitrary offsets exhausts the solver (see C07)
alloc_off!(c17_t_alloc_multipatch_offsets, Multipatch, 156, 9);

// H: tier=quick; unwind=22; sym=116 index bytes behind a valid file code (length field arbitrary), arbitrary .shp header; call=ShapeReader::with_shx; asserts=the index vector is not pre-sized beyond 64 x 216 + 4096 bytes from the declared length
#[kani::proof]
#[kani::unwind(22)]
#[kani::stub(std::vec::Vec::with_capacity, crate::env::with_capacity_model_bounded)]
fn c17_q_alloc_open_with_index() {
    let mut shx: [u8; 116] = kani::any();
    put_i32_be(&mut shx, 0, 9994);
    put_i32_le(&mut shx, 32, 1);
    let mut shp: [u8; 100] = kani::any();
    put_i32_be(&mut shp, 0, 9994);
    put_i32_le(&mut shp, 32, 1);
    c17_native_reset();
    let rd = ShapeReader::with_shx(MemSource::new(&shp), MemSource::new(&shx));
    c17_native_check();
    kani::cover!(rd.is_ok());
    kani::cover!(rd.is_err());
    std::mem::forget(rd);
}

// H: tier=quick; unwind=20; sym=record_size: i32 (all values), 36 content bytes; call=Point::read_from with Vec::with_capacity AND vec![x; n] replaced by bounded models; asserts=a single-point decoder requests no memory out of proportion to its input (e.g. a scratch buffer sized by the declared record size)
#[kani::proof]
#[kani::unwind(20)]
#[kani::stub(std::vec::Vec::with_capacity, crate::env::with_capacity_model_bounded)]
#[kani::stub(std::vec::from_elem, crate::env::from_elem_model_bounded)]
fn c17_q_alloc_point() {
    decode_any::<Point, 36>(T_POINT, true);
}
// H: tier=quick; unwind=20; sym=record_size: i32, 36 content bytes; call=PointZ::read_from with both allocation models; asserts=as above
#[kani::proof]
#[kani::unwind(20)]
#[kani::stub(std::vec::Vec::with_capacity, crate::env::with_capacity_model_bounded)]
#[kani::stub(std::vec::from_elem, crate::env::from_elem_model_bounded)]
fn c17_q_alloc_pointz() {
    decode_any::<PointZ, 36>(T_POINTZ, true);
}

//! C17 — (harnesses not written yet)

//! Bridge between `refcodec::Model` and the library's 13 concrete shape types, using
//! only public constructors and accessors.
use crate::refcodec::*;
use shapefile::record::polygon::GenericPolygon;
use shapefile::record::traits::{HasM, HasXY, HasZ};
use shapefile::record::{ConcreteReadableShape, EsriShape};
use shapefile::*;

pub trait Pt: Copy + PartialEq {
    fn mk(v: &[f64; 4]) -> Self;
    fn get(&self) -> [f64; 4];
}
impl Pt for Point {
    fn mk(v: &[f64; 4]) -> Self {
        Point::new(v[0], v[1])
    }
    fn get(&self) -> [f64; 4] {
        [self.x, self.y, 0.0, 0.0]
    }
}
impl Pt for PointM {
    fn mk(v: &[f64; 4]) -> Self {
        PointM::new(v[0], v[1], v[3])
    }
    fn get(&self) -> [f64; 4] {
        [self.x, self.y, 0.0, self.m]
    }
}
impl Pt for PointZ {
    fn mk(v: &[f64; 4]) -> Self {
        PointZ::new(v[0], v[1], v[2], v[3])
    }
    fn get(&self) -> [f64; 4] {
        [self.x, self.y, self.z, self.m]
    }
}

pub fn bbox8_xy<P: HasXY>(b: &shapefile::record::GenericBBox<P>) -> [f64; 8] {
    let x = b.x_range();
    let y = b.y_range();
    [x[0], y[0], x[1], y[1], 0.0, 0.0, 0.0, 0.0]
}
pub fn bbox8_m<P: HasXY + HasM>(b: &shapefile::record::GenericBBox<P>) -> [f64; 8] {
    let mut r = bbox8_xy(b);
    let m = b.m_range();
    r[6] = m[0];
    r[7] = m[1];
    r
}
pub fn bbox8_z<P: HasXY + HasM + HasZ>(b: &shapefile::record::GenericBBox<P>) -> [f64; 8] {
    let mut r = bbox8_m(b);
    let z = b.z_range();
    r[4] = z[0];
    r[5] = z[1];
    r
}

/// One of the 13 concrete, non-null shape types.
pub trait TShape:
    EsriShape + ConcreteReadableShape + Sized + TryFrom<Shape, Error = Error> + Into<Shape>
{
    const CODE: i32;
    /// 0 = single point, 1 = multi-vertex
    const MULTI: bool;
    /// Build through the public constructor (`new` / `with_parts` / `with_rings`).
    fn build(m: &Model) -> Self;
    /// Read back through public accessors. `bbox` is what the shape reports.
    fn extract(&self) -> Model;
    /// The payload of the matching `Shape` variant, by reference.
    fn of_shape(s: &Shape) -> Option<&Self>;
}

fn part_vec<P: Pt>(m: &Model, p: usize) -> Vec<P> {
    let s = m.part_start(p);
    let mut pts = Vec::with_capacity(m.plen[p]);
    let mut j = 0;
    while j < m.plen[p] {
        pts.push(P::mk(&m.v[s + j]));
        j += 1;
    }
    pts
}
fn all_points<P: Pt>(m: &Model) -> Vec<P> {
    let mut pts = Vec::with_capacity(m.nv);
    let mut j = 0;
    while j < m.nv {
        pts.push(P::mk(&m.v[j]));
        j += 1;
    }
    pts
}

macro_rules! impl_point {
    ($T:ty, $V:ident, $code:expr) => {
        impl TShape for $T {
            const CODE: i32 = $code;
            const MULTI: bool = false;
            fn build(m: &Model) -> Self {
                <$T as Pt>::mk(&m.v[0])
            }
            fn extract(&self) -> Model {
                let mut m = Model::empty($code);
                m.nv = 1;
                m.v[0] = Pt::get(self);
                m
            }
            fn of_shape(s: &Shape) -> Option<&Self> {
                match s {
                    Shape::$V(t) => Some(t),
                    _ => None,
                }
            }
        }
    };
}
impl_point!(Point, Point, T_POINT);
impl_point!(PointM, PointM, T_POINTM);
impl_point!(PointZ, PointZ, T_POINTZ);

macro_rules! impl_multipoint {
    ($T:ident, $P:ty, $code:expr, $bb:ident) => {
        impl TShape for $T {
            const CODE: i32 = $code;
            const MULTI: bool = true;
            fn build(m: &Model) -> Self {
                <$T>::new(all_points::<$P>(m))
            }
            fn extract(&self) -> Model {
                let mut m = Model::empty($code);
                let pts = self.points();
                assert!(pts.len() <= MAXV);
                m.nv = pts.len();
                let mut i = 0;
                while i < pts.len() {
                    m.v[i] = pts[i].get();
                    i += 1;
                }
                m.bbox = $bb(self.bbox());
                m
            }
            fn of_shape(s: &Shape) -> Option<&Self> {
                match s {
                    Shape::$T(t) => Some(t),
                    _ => None,
                }
            }
        }
    };
}
impl_multipoint!(Multipoint, Point, T_MULTIPOINT, bbox8_xy);
impl_multipoint!(MultipointM, PointM, T_MULTIPOINTM, bbox8_m);
impl_multipoint!(MultipointZ, PointZ, T_MULTIPOINTZ, bbox8_z);

macro_rules! impl_polyline {
    ($T:ident, $P:ty, $code:expr, $bb:ident) => {
        impl TShape for $T {
            const CODE: i32 = $code;
            const MULTI: bool = true;
            fn build(m: &Model) -> Self {
                let mut parts = Vec::with_capacity(m.nparts);
                let mut p = 0;
                while p < m.nparts {
                    parts.push(part_vec::<$P>(m, p));
                    p += 1;
                }
                <$T>::with_parts(parts)
            }
            fn extract(&self) -> Model {
                let mut m = Model::empty($code);
                let parts = self.parts();
                assert!(parts.len() <= MAXP);
                m.nparts = parts.len();
                let mut p = 0;
                while p < parts.len() {
                    let pts = &parts[p];
                    m.plen[p] = pts.len();
                    let mut j = 0;
                    while j < pts.len() {
                        assert!(m.nv < MAXV);
                        m.v[m.nv] = pts[j].get();
                        m.nv += 1;
                        j += 1;
                    }
                    p += 1;
                }
                m.bbox = $bb(self.bbox());
                m
            }
            fn of_shape(s: &Shape) -> Option<&Self> {
                match s {
                    Shape::$T(t) => Some(t),
                    _ => None,
                }
            }
        }
    };
}
impl_polyline!(Polyline, Point, T_POLYLINE, bbox8_xy);
impl_polyline!(PolylineM, PointM, T_POLYLINEM, bbox8_m);
impl_polyline!(PolylineZ, PointZ, T_POLYLINEZ, bbox8_z);

pub fn extract_polygon<P: Pt>(code: i32, g: &GenericPolygon<P>, bbox: [f64; 8]) -> Model {
    let mut m = Model::empty(code);
    let rings = g.rings();
    assert!(rings.len() <= MAXP);
    m.nparts = rings.len();
    let mut p = 0;
    while p < rings.len() {
        let (kind, pts) = match &rings[p] {
            PolygonRing::Outer(pts) => (0, pts),
            PolygonRing::Inner(pts) => (1, pts),
        };
        m.pkind[p] = kind;
        m.plen[p] = pts.len();
        let mut j = 0;
        while j < pts.len() {
            assert!(m.nv < MAXV);
            m.v[m.nv] = pts[j].get();
            m.nv += 1;
            j += 1;
        }
        p += 1;
    }
    m.bbox = bbox;
    m
}

macro_rules! impl_polygon {
    ($T:ident, $P:ty, $code:expr, $bb:ident) => {
        impl TShape for $T {
            const CODE: i32 = $code;
            const MULTI: bool = true;
            fn build(m: &Model) -> Self {
                let mut rings = Vec::with_capacity(m.nparts);
                let mut p = 0;
                while p < m.nparts {
                    let pts = part_vec::<$P>(m, p);
                    rings.push(if m.pkind[p] == 0 {
                        PolygonRing::Outer(pts)
                    } else {
                        PolygonRing::Inner(pts)
                    });
                    p += 1;
                }
                <$T>::with_rings(rings)
            }
            fn extract(&self) -> Model {
                extract_polygon::<$P>($code, self, $bb(self.bbox()))
            }
            fn of_shape(s: &Shape) -> Option<&Self> {
                match s {
                    Shape::$T(t) => Some(t),
                    _ => None,
                }
            }
        }
    };
}
impl_polygon!(Polygon, Point, T_POLYGON, bbox8_xy);
impl_polygon!(PolygonM, PointM, T_POLYGONM, bbox8_m);
impl_polygon!(PolygonZ, PointZ, T_POLYGONZ, bbox8_z);

pub fn mk_patch(kind: i32, pts: Vec<PointZ>) -> Patch {
    match kind {
        0 => Patch::TriangleStrip(pts),
        1 => Patch::TriangleFan(pts),
        2 => Patch::OuterRing(pts),
        3 => Patch::InnerRing(pts),
        4 => Patch::FirstRing(pts),
        _ => Patch::Ring(pts),
    }
}
pub fn patch_kind(p: &Patch) -> i32 {
    match p {
        Patch::TriangleStrip(_) => 0,
        Patch::TriangleFan(_) => 1,
        Patch::OuterRing(_) => 2,
        Patch::InnerRing(_) => 3,
        Patch::FirstRing(_) => 4,
        Patch::Ring(_) => 5,
    }
}

impl TShape for Multipatch {
    const CODE: i32 = T_MULTIPATCH;
    const MULTI: bool = true;
    fn build(m: &Model) -> Self {
        let mut patches = Vec::with_capacity(m.nparts);
        let mut p = 0;
        while p < m.nparts {
            patches.push(mk_patch(m.pkind[p], part_vec::<PointZ>(m, p)));
            p += 1;
        }
        Multipatch::with_parts(patches)
    }
    fn extract(&self) -> Model {
        let mut m = Model::empty(T_MULTIPATCH);
        let patches = self.patches();
        assert!(patches.len() <= MAXP);
        m.nparts = patches.len();
        let mut p = 0;
        while p < patches.len() {
            let pts = patches[p].points();
            m.pkind[p] = patch_kind(&patches[p]);
            m.plen[p] = pts.len();
            let mut j = 0;
            while j < pts.len() {
                assert!(m.nv < MAXV);
                m.v[m.nv] = pts[j].get();
                m.nv += 1;
                j += 1;
            }
            p += 1;
        }
        m.bbox = bbox8_z(self.bbox());
        m
    }
    fn of_shape(s: &Shape) -> Option<&Self> {
        match s {
            Shape::Multipatch(t) => Some(t),
            _ => None,
        }
    }
}

/// Polygon built from a polyline through the public `From<GenericPolyline>` conversion:
/// no closing, no reordering; ring roles are whatever the library computes.
pub fn polygon_from_parts<P>(m: &Model) -> GenericPolygon<P>
where
    P: Pt
        + HasXY
        + shapefile::record::traits::ShrinkablePoint
        + shapefile::record::traits::GrowablePoint,
{
    let mut parts = Vec::with_capacity(m.nparts);
    let mut p = 0;
    while p < m.nparts {
        parts.push(part_vec::<P>(m, p));
        p += 1;
    }
    GenericPolygon::<P>::from(shapefile::record::polyline::GenericPolyline::<P>::with_parts(parts))
}

// ------------------------------------------------------------------ comparisons

/// Same structure (type, part count, part lengths, kinds, vertex count).
pub fn same_structure(a: &Model, b: &Model) -> bool {
    if a.code != b.code || a.nparts != b.nparts || a.nv != b.nv {
        return false;
    }
    let mut i = 0;
    while i < a.nparts {
        if a.plen[i] != b.plen[i] || a.pkind[i] != b.pkind[i] {
            return false;
        }
        i += 1;
    }
    true
}

/// The measure a reader must report for a stored measure `m` in a multi-vertex shape.
pub fn norm_m(m: f64) -> f64 {
    if m > shapefile::NO_DATA {
        m
    } else {
        shapefile::NO_DATA
    }
}

/// Bit equality of X, Y, (Z), and of M under `m_rule`: 0 = ignore, 1 = bit-identical,
/// 2 = normalised (multi-vertex read rule).
pub fn same_vertices(a: &Model, b: &Model, zs: bool, m_rule: u8) -> bool {
    let mut i = 0;
    while i < a.nv {
        if !beq(a.v[i][0], b.v[i][0]) || !beq(a.v[i][1], b.v[i][1]) {
            return false;
        }
        if zs && !beq(a.v[i][2], b.v[i][2]) {
            return false;
        }
        if m_rule == 1 && !beq(a.v[i][3], b.v[i][3]) {
            return false;
        }
        if m_rule == 2 && !beq(norm_m(a.v[i][3]), b.v[i][3]) {
            return false;
        }
        i += 1;
    }
    true
}

/// Bit equality of the first `k` box values.
pub fn same_bbox(a: &Model, b: &Model, from: usize, to: usize) -> bool {
    let mut i = from;
    while i < to {
        if !beq(a.bbox[i], b.bbox[i]) {
            return false;
        }
        i += 1;
    }
    true
}

/// Fill every coordinate of the model with a symbolic f64 (all 2^64 bit patterns).
#[cfg(kani)]
pub fn sym_vertices(m: &mut Model) {
    let mut i = 0;
    while i < m.nv {
        let mut c = 0;
        while c < 4 {
            m.v[i][c] = f64::from_bits(kani::any());
            c += 1;
        }
        i += 1;
    }
}
#[cfg(kani)]
pub fn any_f64() -> f64 {
    f64::from_bits(kani::any())
}
#[cfg(kani)]
pub fn any_f64_not_nan() -> f64 {
    let v = f64::from_bits(kani::any());
    kani::assume(v == v);
    v
}
/// X/Y of every vertex assumed non-NaN (quantifier of C01/C05).
#[cfg(kani)]
pub fn assume_xy_not_nan(m: &Model) {
    let mut i = 0;
    while i < m.nv {
        kani::assume(m.v[i][0] == m.v[i][0]);
        kani::assume(m.v[i][1] == m.v[i][1]);
        i += 1;
    }
}

/// Make part `p` closed by constant folding: first and last vertex get the same concrete
/// value (so `first == last` is decided without the solver); interior stays as it is.
pub fn pin_closed(m: &mut Model, p: usize, v: [f64; 4]) {
    let s = m.part_start(p);
    let e = s + m.plen[p] - 1;
    m.v[s] = v;
    m.v[e] = v;
}
/// Make part `p` open by constant folding: first.x and last.x are distinct concrete values,
/// every other coordinate of the two end vertices stays as it is (symbolic).
pub fn pin_open(m: &mut Model, p: usize, x_first: f64, x_last: f64) {
    let s = m.part_start(p);
    let e = s + m.plen[p] - 1;
    m.v[s][0] = x_first;
    m.v[e][0] = x_last;
}
/// Exact twice-signed-area (shoelace as the whitepaper orients it) of part `p` whose X/Y are
/// small integers stored in `xy`.
pub fn shoelace2_int(xy: &[[i32; 2]], s: usize, n: usize) -> i32 {
    let mut acc: i32 = 0;
    let mut i = 0;
    while i + 1 < n {
        acc += (xy[s + i + 1][0] - xy[s + i][0]) * (xy[s + i + 1][1] + xy[s + i][1]);
        i += 1;
    }
    acc
}

/// Model with concrete structure and symbolic payload: every coordinate symbolic, ring
/// parts listed in `open` / `closed` pinned so that closing is decided by constant folding.
#[cfg(kani)]
pub fn sym_model(code: i32, parts: &[usize], kinds: &[i32], open: &[usize], closed: &[usize]) -> Model {
    let mut m = Model::with_structure(code, parts);
    let mut i = 0;
    while i < kinds.len() {
        m.pkind[i] = kinds[i];
        i += 1;
    }
    sym_vertices(&mut m);
    let mut i = 0;
    while i < open.len() {
        pin_open(&mut m, open[i], 1.0, 2.0);
        i += 1;
    }
    let mut i = 0;
    while i < closed.len() {
        pin_closed(&mut m, closed[i], [1.0, 2.0, 3.0, 4.0]);
        i += 1;
    }
    assume_xy_not_nan(&m);
    m
}

/// One shape of a workload: part lengths, kinds, open ring parts, closed ring parts.
pub struct Spec<'a> {
    pub parts: &'a [usize],
    pub kinds: &'a [i32],
    pub open: &'a [usize],
    pub closed: &'a [usize],
}
pub const fn spec<'a>(parts: &'a [usize]) -> Spec<'a> {
    Spec { parts, kinds: &[], open: &[], closed: &[] }
}
pub const fn spec_k<'a>(parts: &'a [usize], kinds: &'a [i32], open: &'a [usize], closed: &'a [usize]) -> Spec<'a> {
    Spec { parts, kinds, open, closed }
}
#[cfg(kani)]
pub fn sym_spec(code: i32, s: &Spec) -> Model {
    sym_model(code, s.parts, s.kinds, s.open, s.closed)
}

/// What an independent decoder must recover from a record written for `built`:
/// same type, counts, part lengths (patch kinds for multipatch), bit-identical X, Y, Z, M
/// (raw, as handed to the writer) and the box the shape reports; M block present.
pub fn decoded_equals_built(d: &Model, b: &Model) -> bool {
    if d.code != b.code || d.nparts != b.nparts || d.nv != b.nv {
        return false;
    }
    let mut i = 0;
    while i < b.nparts {
        if d.plen[i] != b.plen[i] {
            return false;
        }
        if b.code == T_MULTIPATCH && d.pkind[i] != b.pkind[i] {
            return false;
        }
        i += 1;
    }
    let z = has_z(b.code);
    let m = may_have_m(b.code);
    if m && !d.with_m {
        return false;
    }
    if !same_vertices(b, d, z, if m { 1 } else { 0 }) {
        return false;
    }
    if family(b.code) != Some(Family::Point) {
        if !same_bbox(b, d, 0, 4) {
            return false;
        }
        if z && !same_bbox(b, d, 4, 6) {
            return false;
        }
        if m && !same_bbox(b, d, 6, 8) {
            return false;
        }
    }
    true
}

# Table consumed by bin/mkmanifest. Edit here, then run bin/mkmanifest.
HOOK_COMMITS = []
NOTES = (
    "All checks: bin/check <ID> --tier quick|thorough. exit 0 = every harness decided and proved within its bounds "
    "(KNOWN-FINDING lines for open entries of known_findings.json), exit 1 = solver counterexample reproduced natively "
    "(VIOLATION line), exit 2 = inconclusive (timeout / memory / unsatisfied vacuity cover / counterexample that does not "
    "reproduce / build failure) - never reported as a pass. No source hooks were needed: every harness reaches the code "
    "through public items; /repo carries five small 'fix:' commits for defects the checks found (see known_findings.json, "
    "status fixed). Harness bounds, symbolic inputs and what is outside each claim are listed per harness in the evidence files "
    "and in DESIGN.md section 8."
)

claim("C01", "13 shape types: constructor -> write_to -> typed and generic read_from, every coordinate a symbolic f64 (all bit patterns; X/Y non-NaN), "
      "on a grid of concrete part/point counts; plus framing through the real ShapeWriter/ShapeReader for 1-3 records over the reading routes "
      "{typed, generic} x {iterate, read_nth} x {with, without .shx}. One SAT query per cell covers all coordinate values of that cell.",
      "Outside: counts beyond the grid; on-disk routes; generic (Shape) iteration of multi-vertex records (Kani 0.68 mis-models moving an enum with Vec payload out of a Result; "
      "their generic decode is checked at Shape::read_from by reference).")
claim("C02", "Real ShapeWriter output for 0-3 shapes of each of the 13 types (symbolic coordinates) is walked and decoded by an independent, strict codec "
      "(kani/src/refcodec.rs: no byteorder, no shapefile types) and compared field by field with what was handed to the writer; the file is the one left behind after drop, after an explicit finalize, or after "
      "an intermediate finalize followed by further writes (histories write-finalize-write-drop and write-write-finalize-write-finalize).",
      "Outside: counts beyond the grid; other finalize histories (C09 covers those against the drop-only file).")
claim("C04", "Real ShapeWriter::with_shx for n in 0..3 records of different sizes: the .shx bytes are compared with an independent walk of the .shp bytes, "
      "then the real ShapeReader::with_shx must report n, return the i-th shape at i<n and None beyond, iterate identically with and without index, with exact size hints.",
      "Outside: n > 3; path-created pairs.")
claim("C05", "Per-shape boxes of all multi-vertex constructors and the header box after 1-3 writes are characterised independently (every vertex inside, both bounds attained) "
      "for all non-NaN doubles incl. +-inf, +-0, f64::MAX/MIN; the record's stored box is decoded by the independent codec.",
      "Header M range: claimed only when every measure is real data and not for multipatch (as the property states).")
claim("C06", "Type identity for the 14 kinds; requested S x actual T matrix of typed reads against generic reads on independently encoded records with symbolic payload "
      "(error must name S as requested and T as actual); S::try_from over all 14 variants; bulk conversion over all 8 assignments of {Point, PointZ} and of {Point, NullShape} to 3 positions.",
      "Quick tier: diagonal + rows Point, MultipointM; thorough: all 13 rows.")
claim("C07", "Every byte the reader looks at is symbolic: header, index, record decoders (all three point types, the multipoint family with arbitrary counts and declared size, "
      "Polyline with arbitrary part offsets), file-level iteration and random access. Kani's default checks (overflow, bounds, debug assertions, unwrap) are the property; loops driven "
      "by input counts are unwound past the input size with unwinding assertions on. Ten defects found this way are listed as open known findings (call site + check).",
      "Outside: inputs longer than the buffers (72-172 bytes); part/point loops of PolylineM/Z, Polygon*, Multipatch on arbitrary counts (solver out of memory) - their size arithmetic is the multipoint one. "
      "A path that continues only past a listed finding's failing check is not explored (Kani assumes a checked assertion).")
claim("C09", "Every history of length <= 2 (quick) / <= 3, selected 4 (thorough) over {write a, write b, finalize} x {drop, finalize+drop}, one harness per history, payload symbolic: "
      "final .shp/.shx identical to writes-only+drop; every effective finalize flushes, repositions and commits consistent lengths; total I/O equals writes + effective finalizes (a finalize with nothing new does none).",
      "Outside: longer histories; types other than Point/PointM/PointZ/PolylineM.")
claim("C10", "One harness per first type: [write, offers, write, offers, finalize, offers, write, drop] where 'offers' presents all 12 other types: each must be refused with "
      "MismatchShapeType{requested: file type, actual: offered}, issue no I/O, leave the writer clean, and the final files equal those of the history without offers.",
      "Quick: 4 first types; thorough: all 13. The complete Writer (dbf row not written) is outside: see C08.")
claim("C11", "Crash cut = (operation index, byte inside it), symbolic and independent for .shp and .shx, over the workload write a, [finalize], write b, drop: the persisted images are read by the real "
      "ShapeReader::new / ::with_shx; every returned shape must be the one written at that position; shapes committed by a completed finalize stay readable.",
      "Outside: workloads beyond 2 Points; index files cut inside their first 100 bytes (C13 truncation).")
claim("C12", "Failing operation index k symbolic over every write/seek/flush the workload issues, on .shp or .shx (symbolic), one-shot or persistent (symbolic): the call in progress returns Err(IoError), "
      "a failed finalize can be retried to byte-identical files, drop never panics; short writes under three uniform schedules give identical bytes.",
      "Outside: arbitrary per-call short-write counts (make file offsets symbolic; no result) - the library only calls write_all, whose contract is std's.")
claim("C13", "Truncation length symbolic over the whole file for point files and the header; enumerated (every t) for multi-vertex records; failing read symbolic for open, enumerated for record decoders; failing seeks; "
      "short reads under uniform schedules. Shapes before the first error equal the stored ones, the cut record is IoError.",
      "Layered because a symbolic failure point that survives across reader calls cannot be folded by CBMC (see DESIGN.md section 8).")
claim("C17", "C07 decoders re-run with Vec::with_capacity replaced (kani::stub) by a model that asserts each pre-sizing request <= 64 x input + 4096 bytes. The defect the property describes is found and listed as an open known finding.",
      "Growth by push is amortised <= 2x bytes read (std contract, assumed). vec![x; n] (multipatch.rs:247) is sized by the same count as the with_capacity next to it.")
claim("C18", "size_in_bytes == bytes emitted == whitepaper size, and record header content length == (size+4)/2, for 71 grid cells over the 13 types (24 in the quick tier), coordinates symbolic.",
      "Sizes outside the grid are outside the claim.")
claim("C19", "All 2^32 codes are covered symbolically in one SAT query per obligation: ShapeType::from is a partial bijection onto the 14 ESRI codes, "
      "invalid codes in a header or record give InvalidShapeType(code), predicates and Display names equal a literal ESRI table. Exhaustive for the code domain.")

claim("C03", "Files produced by the independent encoder in layouts the library's writer never emits (optional M block absent per record for M/Z/multipatch types, 24-byte PointZ, null records in a typed file and type-0 files, "
      "zero parts / zero points, empty and single-vertex parts, arbitrary ring orientation, arbitrary stored boxes and record numbers, garbage behind the declared length) must be decoded by the real reader to exactly the stored geometry; payload symbolic.",
      "Typed iteration for all families; generic iteration for point types and null records; generic decode of multi-vertex records at Shape::read_from (Kani enum-move limitation). Structures up to 2 parts x 4 points, 3 records; multipatch part kinds: quick tier fan, inner ring, first ring, ring; thorough adds strip and outer ring.")
claim("C08", "Write side of the pairing through the complete Writer with the real dbase::TableWriter: after histories of valid and failing write_shape_and_record calls the .shp record count, .shx entry count and .dbf row count are compared. "
      "The defect the property describes (row rejected after the shape was written) is found and listed as an open known finding.",
      "Read side (ShapeRecordIterator over dbase::Reader, Reader::seek) is OUTSIDE the claim: dbase::Reader::new did not finish symbolic execution. Only stub: the clock read for the .dbf header date.")
claim("C14", "Point records laid out by the independent encoder in every permutation of 3 (and 2) with filler words before/between/after (symbolic filler bytes), index in logical order: iteration must yield one shape per index entry in index order, equal to random access; "
      "one harness per layout (quick tier: [0,1] with gaps, [1,0], and the 3-record orders [0,1,2], [2,0,1], [1,0,2], [2,1,0] without filler; thorough tier: all 6 orders x 4 filler vectors). The defect found (records stored before an earlier-indexed one dropped) is fixed in /repo.",
      "Multi-vertex records only in physical order without gaps (with a gap or swap the position after a `?` read is not a constant for CBMC and vertex loops become unbounded); the index logic does not depend on the record type.")
claim("C15", "One harness per history over {iterate j items, random access, seek, shape count} on a 3-record Point file with index; every return value is compared with the specification and the final iteration must be one of the sequences the statement allows. "
      "Two history dependences found (after seek(k>0); after a previous iteration) are open known findings.",
      "Equal-size Point records only; complete Reader (dbf rows) outside (see C08). Histories: 8 quick, 15 thorough, length <= 3.")
claim("C16", "Real constructors (with_rings, new, polygon! macro, Multipatch::with_parts) on rings whose interior vertices are symbolic (integer X/Y in [-8,8] for the exact-area oracle, arbitrary non-NaN Z/M) and whose closedness is fixed by concrete end vertices: "
      "closed, role kept, sequence kept or reversed as a whole, orientation by exact integer shoelace, idempotent on non-zero area; orientation kernel alone against the integer oracle; the six patch kinds.",
      "Rings of 3-5 vertices (6 in thorough); rings whose two end vertices are both fully symbolic are outside (symbolic closedness exhausts the solver).")
claim("C20", "Crate kani-geo (shapefile with geo-types, geo-traits): point/multipoint/polyline round trips with symbolic coordinates; polygon <-> multipolygon grouping for ring sequences O, O O, O I I O I (hole assignment), geo polygon -> shape; Shape <-> Geometry dispatch and refusals; "
      "geo-traits: for all PointZ/PointM/Point bit patterns every index below dim().size() is readable and returns the matching field (defect found for NaN measures, fixed in /repo).",
      "Polygon grouping harnesses use concrete ring coordinates (grouping is structural).")

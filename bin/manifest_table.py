# Table consumed by bin/mkmanifest. Edit here, then run bin/mkmanifest.
HOOK_COMMITS = []
NOTES = (
    "All checks: bin/check <ID> --tier quick|thorough. exit 0 = proved within bounds (KNOWN-FINDING lines for entries of "
    "known_findings.json), exit 1 = solver counterexample reproduced natively (VIOLATION line), exit 2 = inconclusive "
    "(timeout / memory / vacuous cover / non-reproducing counterexample / build failure) - never reported as a pass."
)

claim("C19", "All 2^32 codes are covered symbolically in one SAT query per obligation: ShapeType::from is a partial bijection onto the 14 ESRI codes, "
      "invalid codes in a header or record give InvalidShapeType(code), predicates and Display names equal a literal ESRI table. Exhaustive for the code domain.")

_pending = "check not built yet in this session (work in progress; see DESIGN.md for the planned harness family)"
for p in ["C01","C02","C03","C04","C05","C06","C07","C08","C09","C10","C11","C12","C13","C14","C15","C16","C17","C18","C20"]:
    na(p, _pending)

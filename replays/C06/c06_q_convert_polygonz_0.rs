// verif-replay: property=C06
// verif-replay: module=c06
// verif-replay: harness=c06_q_convert_polygonz
// verif-replay: failed="conversion error names another actual type than the value's variant" @ src/c06.rs:286:17 [c06::convert_row::<shapefile::record::polygon::GenericPolygon<shapefile::PointZ>>]
/// Test generated for harness `c06::c06_q_convert_polygonz` 
///
/// Check for `assertion`: ""conversion error names another actual type than the value's variant""

#[test]
fn kani_concrete_playback_c06_q_convert_polygonz_12195230051411201995() {
    let concrete_vals: Vec<Vec<u8>> = vec![
        // 0ul
        vec![0, 0, 0, 0, 0, 0, 0, 0],
        // 0ul
        vec![0, 0, 0, 0, 0, 0, 0, 0],
        // 0ul
        vec![0, 0, 0, 0, 0, 0, 0, 0],
        // 0ul
        vec![0, 0, 0, 0, 0, 0, 0, 0],
        // 0ul
        vec![0, 0, 0, 0, 0, 0, 0, 0],
        // 0ul
        vec![0, 0, 0, 0, 0, 0, 0, 0],
        // 0ul
        vec![0, 0, 0, 0, 0, 0, 0, 0],
        // 0ul
        vec![0, 0, 0, 0, 0, 0, 0, 0],
        // 0ul
        vec![0, 0, 0, 0, 0, 0, 0, 0],
        // 0ul
        vec![0, 0, 0, 0, 0, 0, 0, 0],
        // 0ul
        vec![0, 0, 0, 0, 0, 0, 0, 0],
        // 0ul
        vec![0, 0, 0, 0, 0, 0, 0, 0],
        // 0ul
        vec![0, 0, 0, 0, 0, 0, 0, 0],
        // 0ul
        vec![0, 0, 0, 0, 0, 0, 0, 0],
        // 0ul
        vec![0, 0, 0, 0, 0, 0, 0, 0],
        // 0ul
        vec![0, 0, 0, 0, 0, 0, 0, 0],
        // 0ul
        vec![0, 0, 0, 0, 0, 0, 0, 0],
        // 0ul
        vec![0, 0, 0, 0, 0, 0, 0, 0],
        // 0ul
        vec![0, 0, 0, 0, 0, 0, 0, 0],
        // 0ul
        vec![0, 0, 0, 0, 0, 0, 0, 0],
        // 0ul
        vec![0, 0, 0, 0, 0, 0, 0, 0],
        // 0ul
        vec![0, 0, 0, 0, 0, 0, 0, 0],
        // 0ul
        vec![0, 0, 0, 0, 0, 0, 0, 0],
        // 0ul
        vec![0, 0, 0, 0, 0, 0, 0, 0],
        // 0ul
        vec![0, 0, 0, 0, 0, 0, 0, 0],
        // 0ul
        vec![0, 0, 0, 0, 0, 0, 0, 0],
        // 0ul
        vec![0, 0, 0, 0, 0, 0, 0, 0],
        // 0ul
        vec![0, 0, 0, 0, 0, 0, 0, 0],
        // 0ul
        vec![0, 0, 0, 0, 0, 0, 0, 0],
        // 0ul
        vec![0, 0, 0, 0, 0, 0, 0, 0],
        // 0ul
        vec![0, 0, 0, 0, 0, 0, 0, 0],
        // 0ul
        vec![0, 0, 0, 0, 0, 0, 0, 0],
        // 0ul
        vec![0, 0, 0, 0, 0, 0, 0, 0],
        // 0ul
        vec![0, 0, 0, 0, 0, 0, 0, 0],
        // 0ul
        vec![0, 0, 0, 0, 0, 0, 0, 0],
        // 0ul
        vec![0, 0, 0, 0, 0, 0, 0, 0],
        // 0ul
        vec![0, 0, 0, 0, 0, 0, 0, 0],
        // 0ul
        vec![0, 0, 0, 0, 0, 0, 0, 0],
        // 0ul
        vec![0, 0, 0, 0, 0, 0, 0, 0],
        // 0ul
        vec![0, 0, 0, 0, 0, 0, 0, 0],
        // 0ul
        vec![0, 0, 0, 0, 0, 0, 0, 0],
        // 0ul
        vec![0, 0, 0, 0, 0, 0, 0, 0],
        // 0ul
        vec![0, 0, 0, 0, 0, 0, 0, 0],
        // 0ul
        vec![0, 0, 0, 0, 0, 0, 0, 0],
        // 0ul
        vec![0, 0, 0, 0, 0, 0, 0, 0],
        // 0ul
        vec![0, 0, 0, 0, 0, 0, 0, 0],
        // 0ul
        vec![0, 0, 0, 0, 0, 0, 0, 0],
        // 0ul
        vec![0, 0, 0, 0, 0, 0, 0, 0],
        // 0ul
        vec![0, 0, 0, 0, 0, 0, 0, 0],
        // 0ul
        vec![0, 0, 0, 0, 0, 0, 0, 0],
        // 0ul
        vec![0, 0, 0, 0, 0, 0, 0, 0],
        // 0ul
        vec![0, 0, 0, 0, 0, 0, 0, 0],
        // 0ul
        vec![0, 0, 0, 0, 0, 0, 0, 0],
        // 0ul
        vec![0, 0, 0, 0, 0, 0, 0, 0],
        // 0ul
        vec![0, 0, 0, 0, 0, 0, 0, 0],
        // 0ul
        vec![0, 0, 0, 0, 0, 0, 0, 0],
    ];
    kani::concrete_playback_run(concrete_vals, c06_q_convert_polygonz);
}

// verif-replay: property=C06
// verif-replay: module=c06
// verif-replay: harness=c06_q_identity_multipatch
// verif-replay: failed="MemFile capacity exceeded" @ src/env.rs:55:13 [<env::MemFile<256> as std::io::Write>::write]
/// Test generated for harness `c06::c06_q_identity_multipatch` 
///
/// Check for `assertion`: ""MemFile capacity exceeded""

#[test]
fn kani_concrete_playback_c06_q_identity_multipatch_13540110279162261614() {
    let concrete_vals: Vec<Vec<u8>> = vec![
        // 0ul
        vec![0, 0, 0, 0, 0, 0, 0, 0],
        // 0ul
        vec![0, 0, 0, 0, 0, 0, 0, 0],
        // 0ul
        vec![0, 0, 0, 0, 0, 0, 0, 0],
        // 0ul
        vec![0, 0, 0, 0, 0, 0, 0, 0],
        // 0ul
        vec![0, 0, 0, 0, 0, 0, 0, 0],
        // 0ul
        vec![0, 0, 0, 0, 0, 0, 0, 0],
        // 0ul
        vec![0, 0, 0, 0, 0, 0, 0, 0],
        // 0ul
        vec![0, 0, 0, 0, 0, 0, 0, 0],
        // 0ul
        vec![0, 0, 0, 0, 0, 0, 0, 0],
        // 0ul
        vec![0, 0, 0, 0, 0, 0, 0, 0],
        // 0ul
        vec![0, 0, 0, 0, 0, 0, 0, 0],
        // 0ul
        vec![0, 0, 0, 0, 0, 0, 0, 0],
    ];
    kani::concrete_playback_run(concrete_vals, c06_q_identity_multipatch);
}

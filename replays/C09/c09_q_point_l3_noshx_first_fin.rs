// verif-replay: property=C09
// verif-replay: module=c09
// verif-replay: harness=c09_q_point_l3_noshx_first_fin
// verif-replay: failed=".shp length at finalize differs from header + records written so far" @ src/c09.rs:100:9 [c09::one_history::<shapefile::Point, 320, 3>]
/// Test generated for harness `c09::c09_q_point_l3_noshx_first_fin` 
///
/// Check for `assertion`: "".shp length at finalize differs from header + records written so far""

#[test]
fn kani_concrete_playback_c09_q_point_l3_noshx_first_fin_10759844805450407739() {
    let concrete_vals: Vec<Vec<u8>> = vec![
        // 0ul
        vec![0, 0, 0, 0, 0, 0, 0, 0],
        // 0ul
        vec![0, 0, 0, 0, 0, 0, 0, 0],
        // 0ul
        vec![0, 0, 0, 0, 0, 0, 0, 0],
        // 0ul
        vec![0, 0, 0, 0, 0, 0, 0, 0],
        // 0ul
        vec![0, 0, 0, 0, 0, 0, 0, 0],
        // 0ul
        vec![0, 0, 0, 0, 0, 0, 0, 0],
        // 0ul
        vec![0, 0, 0, 0, 0, 0, 0, 0],
        // 0ul
        vec![0, 0, 0, 0, 0, 0, 0, 0],
    ];
    kani::concrete_playback_run(concrete_vals, c09_q_point_l3_noshx_first_fin);
}

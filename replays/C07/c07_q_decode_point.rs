// verif-replay: property=C07
// verif-replay: module=c07
// verif-replay: harness=c07_q_decode_point
// verif-replay: failed=attempt to subtract with overflow @ ../../repo/src/record/mod.rs:58:9 [<shapefile::Point as shapefile::ReadableShape>::read_from::<env::MemSource<'_>>]
/// Test generated for harness `c07::c07_q_decode_point` 
///
/// Check for `assertion`: "attempt to subtract with overflow"

#[test]
fn kani_concrete_playback_c07_q_decode_point_13434960833246533265() {
    let concrete_vals: Vec<Vec<u8>> = vec![
        // 0
        vec![0],
        // 0
        vec![0],
        // 0
        vec![0],
        // 0
        vec![0],
        // 0
        vec![0],
        // 0
        vec![0],
        // 0
        vec![0],
        // 0
        vec![0],
        // 0
        vec![0],
        // 0
        vec![0],
        // 0
        vec![0],
        // 0
        vec![0],
        // 0
        vec![0],
        // 0
        vec![0],
        // 0
        vec![0],
        // 0
        vec![0],
        // 0
        vec![0],
        // 0
        vec![0],
        // 0
        vec![0],
        // 0
        vec![0],
        // 0
        vec![0],
        // 0
        vec![0],
        // 0
        vec![0],
        // 0
        vec![0],
        // 0
        vec![0],
        // 0
        vec![0],
        // 0
        vec![0],
        // 0
        vec![0],
        // 0
        vec![0],
        // 0
        vec![0],
        // 0
        vec![0],
        // 0
        vec![0],
        // 0
        vec![0],
        // 0
        vec![0],
        // 0
        vec![0],
        // 0
        vec![0],
        // -2147483648
        vec![0, 0, 0, 128],
    ];
    kani::concrete_playback_run(concrete_vals, c07_q_decode_point);
}

#![allow(dead_code)]
#![allow(unused_imports)]
#[cfg(all(kani, feature = "c20"))]
mod c20;

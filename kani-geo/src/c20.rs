//! C20 — geo-types conversions preserve coordinates, order and ring nesting; geo-traits
//! dimensions are consistent.
use geo_traits::{CoordTrait, Dimensions};
use geo_types::{Coord, Geometry, Line, LineString, MultiLineString, MultiPoint, MultiPolygon};
use shapefile::*;
use std::convert::TryFrom;

fn any_f64() -> f64 {
    f64::from_bits(kani::any())
}
fn any_nn() -> f64 {
    let v = any_f64();
    kani::assume(v == v);
    v
}
fn beq(a: f64, b: f64) -> bool {
    a.to_bits() == b.to_bits()
}

// ---- geo-traits dimensions --------------------------------------------------------------

fn size(d: Dimensions) -> usize {
    match d {
        Dimensions::Xy => 2,
        Dimensions::Xyz | Dimensions::Xym => 3,
        Dimensions::Xyzm => 4,
        Dimensions::Unknown(n) => n,
    }
}

// H: tier=quick; sym=PointZ x,y,z,m (all f64 bit patterns incl. NaN, no-data, below threshold); asserts=for every n < dim().size(): nth_or_panic(n) does not panic and returns the matching field (x, y, z, then m)
#[kani::proof]
fn c20_q_traits_pointz_dims() {
    let p = PointZ::new(any_f64(), any_f64(), any_f64(), any_f64());
    let k = size(CoordTrait::dim(&p));
    assert!(k == 3 || k == 4);
    let n: usize = kani::any();
    kani::assume(n < k);
    let v = p.nth_or_panic(n);
    let want = if n == 0 { p.x } else if n == 1 { p.y } else if n == 2 { p.z } else { p.m };
    assert!(beq(v, want));
    // same through the reference impl
    let r = &p;
    let k2 = size(CoordTrait::dim(&r));
    assert!(k2 == k);
    let v2 = r.nth_or_panic(n);
    assert!(beq(v2, want));
    kani::cover!(k == 4 && n == 3);
    kani::cover!(k == 3);
}
// H: tier=quick; sym=PointM x,y,m (all bit patterns); asserts=n < dim().size() => nth_or_panic(n) returns x, y, m without panicking
#[kani::proof]
fn c20_q_traits_pointm_dims() {
    let p = PointM::new(any_f64(), any_f64(), any_f64());
    let k = size(CoordTrait::dim(&p));
    assert!(k == 2 || k == 3);
    let n: usize = kani::any();
    kani::assume(n < k);
    let v = p.nth_or_panic(n);
    let want = if n == 0 { p.x } else if n == 1 { p.y } else { p.m };
    assert!(beq(v, want));
    let r = &p;
    assert!(size(CoordTrait::dim(&r)) == k);
    assert!(beq(r.nth_or_panic(n), want));
    kani::cover!(k == 3 && n == 2);
    kani::cover!(k == 2);
}
// H: tier=quick; sym=Point x,y; asserts=dimension 2, nth_or_panic(0/1) = x/y
#[kani::proof]
fn c20_q_traits_point_dims() {
    let p = Point::new(any_f64(), any_f64());
    assert!(size(CoordTrait::dim(&p)) == 2);
    assert!(beq(p.nth_or_panic(0), p.x) && beq(p.nth_or_panic(1), p.y));
    let r = &p;
    assert!(size(CoordTrait::dim(&r)) == 2);
    assert!(beq(r.nth_or_panic(0), p.x) && beq(r.nth_or_panic(1), p.y));
    kani::cover!(true);
}

// ---- points ----------------------------------------------------------------------------

// H: tier=quick; sym=x,y,z,m; asserts=Point/PointM/PointZ -> geo Point and Coord keep x,y bit for bit; geo -> Point is the original; geo -> PointM/PointZ give m = NO_DATA, z = 0
#[kani::proof]
fn c20_q_points_roundtrip() {
    let (x, y, z, m) = (any_f64(), any_f64(), any_f64(), any_f64());
    let p = Point::new(x, y);
    let g: geo_types::Point<f64> = p.into();
    assert!(beq(g.x(), x) && beq(g.y(), y));
    let back: Point = g.into();
    assert!(beq(back.x, x) && beq(back.y, y));
    let c: Coord<f64> = p.into();
    assert!(beq(c.x, x) && beq(c.y, y));
    let back: Point = c.into();
    assert!(beq(back.x, x) && beq(back.y, y));
    let pm = PointM::new(x, y, m);
    let g: geo_types::Point<f64> = pm.into();
    assert!(beq(g.x(), x) && beq(g.y(), y));
    let back: PointM = g.into();
    assert!(beq(back.x, x) && beq(back.y, y) && beq(back.m, NO_DATA));
    let c: Coord<f64> = pm.into();
    let back: PointM = c.into();
    assert!(beq(back.x, x) && beq(back.y, y) && beq(back.m, NO_DATA));
    let pz = PointZ::new(x, y, z, m);
    let g: geo_types::Point<f64> = pz.into();
    assert!(beq(g.x(), x) && beq(g.y(), y));
    let back: PointZ = g.into();
    assert!(beq(back.x, x) && beq(back.y, y) && beq(back.m, NO_DATA) && back.z == 0.0);
    let c: Coord<f64> = pz.into();
    let back: PointZ = c.into();
    assert!(beq(back.x, x) && beq(back.y, y) && beq(back.m, NO_DATA) && back.z == 0.0);
    kani::cover!(true);
}

// ---- multipoint ------------------------------------------------------------------------

// H: tier=quick; unwind=8; sym=3 points x (x,y non-NaN, z, m); asserts=Multipoint/M/Z -> geo MultiPoint keeps every X/Y pair in order; MultiPoint -> Multipoint gives the original 2-D shape (points and box)
#[kani::proof]
#[kani::unwind(8)]
fn c20_q_multipoint_roundtrip() {
    let xs = [any_nn(), any_nn(), any_nn()];
    let ys = [any_nn(), any_nn(), any_nn()];
    let mp = Multipoint::new(vec![Point::new(xs[0], ys[0]), Point::new(xs[1], ys[1]), Point::new(xs[2], ys[2])]);
    let orig = mp.clone();
    let g: MultiPoint<f64> = mp.into();
    assert!(g.0.len() == 3);
    let mut i = 0;
    while i < 3 {
        assert!(beq(g.0[i].x(), xs[i]) && beq(g.0[i].y(), ys[i]));
        i += 1;
    }
    let back: Multipoint = g.into();
    assert!(back.points().len() == 3);
    let mut i = 0;
    while i < 3 {
        assert!(beq(back.points()[i].x, xs[i]) && beq(back.points()[i].y, ys[i]));
        i += 1;
    }
    assert!(back == orig);
    let mz = MultipointZ::new(vec![PointZ::new(xs[0], ys[0], any_f64(), any_f64()), PointZ::new(xs[1], ys[1], any_f64(), any_f64())]);
    let g: MultiPoint<f64> = mz.into();
    assert!(g.0.len() == 2 && beq(g.0[1].x(), xs[1]) && beq(g.0[0].y(), ys[0]));
    let mm = MultipointM::new(vec![PointM::new(xs[2], ys[2], any_f64())]);
    let g: MultiPoint<f64> = mm.into();
    assert!(g.0.len() == 1 && beq(g.0[0].x(), xs[2]));
    kani::cover!(true);
    std::mem::forget(back);
    std::mem::forget(orig);
    std::mem::forget(g);
}

// ---- polyline --------------------------------------------------------------------------

// H: tier=quick; unwind=8; sym=5 vertices in parts [2,3], X/Y non-NaN; asserts=Polyline -> MultiLineString keeps the grouping into lines and every X/Y pair in order; MultiLineString -> Polyline gives the original 2-D shape; Line and LineString -> one-part Polyline
#[kani::proof]
#[kani::unwind(8)]
fn c20_q_polyline_roundtrip() {
    let xs = [any_nn(), any_nn(), any_nn(), any_nn(), any_nn()];
    let ys = [any_nn(), any_nn(), any_nn(), any_nn(), any_nn()];
    let pl = Polyline::with_parts(vec![
        vec![Point::new(xs[0], ys[0]), Point::new(xs[1], ys[1])],
        vec![Point::new(xs[2], ys[2]), Point::new(xs[3], ys[3]), Point::new(xs[4], ys[4])],
    ]);
    let orig = pl.clone();
    let g: MultiLineString<f64> = pl.into();
    assert!(g.0.len() == 2 && g.0[0].0.len() == 2 && g.0[1].0.len() == 3);
    assert!(beq(g.0[0].0[0].x, xs[0]) && beq(g.0[0].0[1].y, ys[1]));
    assert!(beq(g.0[1].0[0].x, xs[2]) && beq(g.0[1].0[1].x, xs[3]) && beq(g.0[1].0[2].y, ys[4]));
    let back: Polyline = g.into();
    assert!(back == orig);
    let ln = Line::new(Coord { x: xs[0], y: ys[0] }, Coord { x: xs[1], y: ys[1] });
    let p1: Polyline = ln.into();
    assert!(p1.parts().len() == 1 && p1.parts()[0].len() == 2 && beq(p1.parts()[0][1].x, xs[1]));
    let ls = LineString::from(vec![Coord { x: xs[2], y: ys[2] }, Coord { x: xs[3], y: ys[3] }, Coord { x: xs[4], y: ys[4] }]);
    let p2: Polyline = ls.into();
    assert!(p2.parts().len() == 1 && p2.parts()[0].len() == 3 && beq(p2.parts()[0][2].y, ys[4]));
    kani::cover!(true);
    std::mem::forget(back);
    std::mem::forget(orig);
    std::mem::forget(p1);
    std::mem::forget(p2);
}

// ---- polygons ---------------------------------------------------------------------------

const OUT_A: [[f64; 2]; 5] = [[0.0, 0.0], [0.0, 10.0], [10.0, 10.0], [10.0, 0.0], [0.0, 0.0]]; // clockwise
const IN_A1: [[f64; 2]; 4] = [[1.0, 1.0], [2.0, 1.0], [1.0, 2.0], [1.0, 1.0]]; // counter-clockwise
const IN_A2: [[f64; 2]; 4] = [[5.0, 5.0], [6.0, 5.0], [5.0, 6.0], [5.0, 5.0]];
const OUT_B: [[f64; 2]; 4] = [[20.0, 0.0], [20.0, 5.0], [25.0, 0.0], [20.0, 0.0]]; // clockwise
const IN_B1: [[f64; 2]; 4] = [[21.0, 1.0], [22.0, 1.0], [21.0, 2.0], [21.0, 1.0]];

fn ring(r: &[[f64; 2]], outer: bool) -> PolygonRing<Point> {
    let mut v = Vec::with_capacity(r.len());
    let mut i = 0;
    while i < r.len() {
        v.push(Point::new(r[i][0], r[i][1]));
        i += 1;
    }
    if outer {
        PolygonRing::Outer(v)
    } else {
        PolygonRing::Inner(v)
    }
}
fn same_ls(ls: &LineString<f64>, r: &[[f64; 2]]) -> bool {
    if ls.0.len() != r.len() {
        return false;
    }
    let mut i = 0;
    while i < r.len() {
        if !(ls.0[i].x == r[i][0] && ls.0[i].y == r[i][1]) {
            return false;
        }
        i += 1;
    }
    true
}
/// Same cyclic sequence or its reverse ("up to orientation") for closed rings.
fn same_ring_up_to_orientation(pts: &[Point], r: &[[f64; 2]]) -> bool {
    if pts.len() != r.len() {
        return false;
    }
    let n = r.len();
    let mut fwd = true;
    let mut rev = true;
    let mut i = 0;
    while i < n {
        if !(pts[i].x == r[i][0] && pts[i].y == r[i][1]) {
            fwd = false;
        }
        if !(pts[i].x == r[n - 1 - i][0] && pts[i].y == r[n - 1 - i][1]) {
            rev = false;
        }
        i += 1;
    }
    fwd || rev
}

// H: tier=quick; unwind=12; sym=none (concrete rings; grouping is structural); rings=O I I O I (outer A with two holes, outer B with one hole); asserts=Polygon -> MultiPolygon: 2 polygons, exteriors and holes assigned to the right outer, coordinates in order; MultiPolygon -> Polygon: same rings in the same grouping up to orientation
#[kani::proof]
#[kani::unwind(12)]
fn c20_q_polygon_grouping_oiioi() {
    let poly = Polygon::with_rings(vec![ring(&OUT_A, true), ring(&IN_A1, false), ring(&IN_A2, false), ring(&OUT_B, true), ring(&IN_B1, false)]);
    let g: MultiPolygon<f64> = poly.into();
    assert!(g.0.len() == 2, "outer rings did not each open a polygon");
    assert!(same_ls(g.0[0].exterior(), &OUT_A));
    assert!(g.0[0].interiors().len() == 2 && same_ls(&g.0[0].interiors()[0], &IN_A1) && same_ls(&g.0[0].interiors()[1], &IN_A2));
    assert!(same_ls(g.0[1].exterior(), &OUT_B));
    assert!(g.0[1].interiors().len() == 1 && same_ls(&g.0[1].interiors()[0], &IN_B1));
    let back: Polygon = g.into();
    let r = back.rings();
    assert!(r.len() == 5);
    assert!(matches!(r[0], PolygonRing::Outer(_)) && matches!(r[1], PolygonRing::Inner(_)) && matches!(r[2], PolygonRing::Inner(_)));
    assert!(matches!(r[3], PolygonRing::Outer(_)) && matches!(r[4], PolygonRing::Inner(_)));
    assert!(same_ring_up_to_orientation(r[0].points(), &OUT_A));
    assert!(same_ring_up_to_orientation(r[1].points(), &IN_A1));
    assert!(same_ring_up_to_orientation(r[2].points(), &IN_A2));
    assert!(same_ring_up_to_orientation(r[3].points(), &OUT_B));
    assert!(same_ring_up_to_orientation(r[4].points(), &IN_B1));
    kani::cover!(true);
    std::mem::forget(back);
}
// H: tier=quick; unwind=12; sym=none; rings=O O (two outers, no holes) and O alone; asserts=two polygons without holes / one polygon; back to the same rings
#[kani::proof]
#[kani::unwind(12)]
fn c20_q_polygon_grouping_oo() {
    let poly = Polygon::with_rings(vec![ring(&OUT_A, true), ring(&OUT_B, true)]);
    let g: MultiPolygon<f64> = poly.into();
    assert!(g.0.len() == 2 && g.0[0].interiors().is_empty() && g.0[1].interiors().is_empty());
    assert!(same_ls(g.0[0].exterior(), &OUT_A) && same_ls(g.0[1].exterior(), &OUT_B));
    let back: Polygon = g.into();
    assert!(back.rings().len() == 2 && same_ring_up_to_orientation(back.rings()[1].points(), &OUT_B));
    let single = Polygon::new(ring(&OUT_B, true));
    let g: MultiPolygon<f64> = single.into();
    assert!(g.0.len() == 1 && same_ls(g.0[0].exterior(), &OUT_B));
    kani::cover!(true);
    std::mem::forget(back);
    std::mem::forget(g);
}
// H: tier=quick; unwind=12; sym=none; geo=geo_types::Polygon with a COUNTER-clockwise exterior and a clockwise hole (geo convention); asserts=converted Polygon has rings [Outer, Inner], closed, coordinates of each ring preserved up to orientation
#[kani::proof]
#[kani::unwind(12)]
fn c20_q_geo_polygon_to_shape() {
    let ext = LineString::from(vec![(0.0, 0.0), (10.0, 0.0), (10.0, 10.0), (0.0, 10.0), (0.0, 0.0)]);
    let hole = LineString::from(vec![(1.0, 1.0), (1.0, 2.0), (2.0, 1.0), (1.0, 1.0)]);
    let gp = geo_types::Polygon::new(ext, vec![hole]);
    let sp: Polygon = gp.into();
    let r = sp.rings();
    assert!(r.len() == 2 && matches!(r[0], PolygonRing::Outer(_)) && matches!(r[1], PolygonRing::Inner(_)));
    assert!(same_ring_up_to_orientation(r[0].points(), &[[0.0, 0.0], [10.0, 0.0], [10.0, 10.0], [0.0, 10.0], [0.0, 0.0]]));
    assert!(same_ring_up_to_orientation(r[1].points(), &[[1.0, 1.0], [1.0, 2.0], [2.0, 1.0], [1.0, 1.0]]));
    kani::cover!(true);
    std::mem::forget(sp);
}

// ---- dispatch and refusals ---------------------------------------------------------------

// H: tier=quick; unwind=8; sym=coordinates; asserts=Shape -> Geometry: Point and PointZ -> Point with the same X/Y
#[kani::proof]
#[kani::unwind(8)]
fn c20_q_shape_to_geometry_points() {
    let (x, y) = (any_nn(), any_nn());
    let g = Geometry::<f64>::try_from(Shape::Point(Point::new(x, y)));
    assert!(matches!(&g, Ok(Geometry::Point(p)) if beq(p.x(), x) && beq(p.y(), y)));
    std::mem::forget(g);
    let g = Geometry::<f64>::try_from(Shape::PointZ(PointZ::new(x, y, any_f64(), any_f64())));
    assert!(matches!(&g, Ok(Geometry::Point(p)) if beq(p.x(), x)));
    std::mem::forget(g);
    let g = Geometry::<f64>::try_from(Shape::PointM(PointM::new(x, y, any_f64())));
    assert!(matches!(&g, Ok(Geometry::Point(p)) if beq(p.y(), y)));
    std::mem::forget(g);
    kani::cover!(true);
}
// H: tier=quick; unwind=8; sym=none; asserts=NullShape -> Err (no panic, no geometry)
#[kani::proof]
#[kani::unwind(8)]
fn c20_q_refuse_nullshape() {
    let g = Geometry::<f64>::try_from(Shape::NullShape);
    assert!(g.is_err(), "NullShape converted into a geometry");
    std::mem::forget(g);
    kani::cover!(true);
}
fn pz(a: f64) -> PointZ {
    PointZ::new(a, 1.0, 2.0, 3.0)
}
// H: tier=quick; unwind=8; sym=none; asserts=Multipatch holding a triangle strip -> Err; same through MultiPolygon::try_from
#[kani::proof]
#[kani::unwind(8)]
fn c20_q_refuse_triangle_strip() {
    let strip = Multipatch::new(Patch::TriangleStrip(vec![pz(0.0), pz(1.0), pz(2.0)]));
    let g = MultiPolygon::<f64>::try_from(strip);
    assert!(g.is_err(), "triangle strip converted into a multipolygon");
    std::mem::forget(g);
    kani::cover!(true);
}
// H: tier=quick; unwind=8; sym=none; asserts=Multipatch holding a triangle fan behind a ring -> Err
#[kani::proof]
#[kani::unwind(8)]
fn c20_q_refuse_triangle_fan() {
    let fan = Multipatch::with_parts(vec![
        Patch::OuterRing(vec![pz(0.0), PointZ::new(0.0, 5.0, 0.0, 0.0), PointZ::new(5.0, 5.0, 0.0, 0.0), pz(0.0)]),
        Patch::TriangleFan(vec![pz(0.0), pz(1.0), pz(2.0)]),
    ]);
    let g = MultiPolygon::<f64>::try_from(fan);
    assert!(g.is_err(), "triangle fan converted into a multipolygon");
    std::mem::forget(g);
    kani::cover!(true);
}
// H: tier=quick; unwind=8; sym=none; asserts=ring-only Multipatch [OuterRing, InnerRing] -> one polygon with one hole, coordinates in order
#[kani::proof]
#[kani::unwind(8)]
fn c20_q_ring_multipatch_to_multipolygon() {
    let rings = Multipatch::with_parts(vec![
        Patch::OuterRing(vec![pz(0.0), PointZ::new(0.0, 5.0, 0.0, 0.0), PointZ::new(5.0, 5.0, 0.0, 0.0), pz(0.0)]),
        Patch::InnerRing(vec![pz(1.0), PointZ::new(2.0, 1.0, 0.0, 0.0), PointZ::new(1.0, 2.0, 0.0, 0.0), pz(1.0)]),
    ]);
    let g = MultiPolygon::<f64>::try_from(rings);
    match &g {
        Ok(mp) => {
            assert!(mp.0.len() == 1 && mp.0[0].interiors().len() == 1 && mp.0[0].exterior().0.len() == 4);
            assert!(mp.0[0].exterior().0[1].y == 5.0 && mp.0[0].interiors()[0].0[1].x == 2.0);
        }
        Err(_) => assert!(false, "ring-only multipatch was refused"),
    }
    std::mem::forget(g);
    kani::cover!(true);
}
// H: tier=quick; unwind=8; sym=coordinates; asserts=Shape::Polyline -> MultiLineString, Shape::Multipoint -> MultiPoint with the same coordinates
#[kani::proof]
#[kani::unwind(8)]
fn c20_q_shape_to_geometry_lines_points() {
    let (x, y) = (any_nn(), any_nn());
    let pl = Polyline::new(vec![Point::new(x, y), Point::new(1.0, 2.0)]);
    let g = Geometry::<f64>::try_from(Shape::Polyline(pl));
    assert!(matches!(&g, Ok(Geometry::MultiLineString(m)) if m.0.len() == 1 && beq(m.0[0].0[0].x, x)));
    std::mem::forget(g);
    let mp = Multipoint::new(vec![Point::new(x, y)]);
    let g = Geometry::<f64>::try_from(Shape::Multipoint(mp));
    assert!(matches!(&g, Ok(Geometry::MultiPoint(m)) if m.0.len() == 1 && beq(m.0[0].y(), y)));
    std::mem::forget(g);
    kani::cover!(true);
}
// H: tier=quick; unwind=8; sym=coordinates; asserts=Geometry -> Shape: Point -> Point, Line/LineString/MultiLineString -> Polyline, MultiPoint -> Multipoint; GeometryCollection, Rect and Triangle -> Err
#[kani::proof]
#[kani::unwind(8)]
fn c20_q_geometry_to_shape_dispatch() {
    let (x, y) = (any_nn(), any_nn());
    let s = Shape::try_from(Geometry::Point(geo_types::Point::new(x, y)));
    assert!(matches!(&s, Ok(Shape::Point(p)) if beq(p.x, x) && beq(p.y, y)));
    std::mem::forget(s);
    let s = Shape::try_from(Geometry::Line(Line::new(Coord { x, y }, Coord { x: 1.0, y: 2.0 })));
    assert!(matches!(&s, Ok(Shape::Polyline(p)) if p.parts().len() == 1 && beq(p.parts()[0][0].x, x)));
    std::mem::forget(s);
    let s = Shape::try_from(Geometry::MultiPoint(MultiPoint::from(vec![geo_types::Point::new(x, y)])));
    assert!(matches!(&s, Ok(Shape::Multipoint(m)) if m.points().len() == 1 && beq(m.points()[0].y, y)));
    std::mem::forget(s);
    let s = Shape::try_from(Geometry::GeometryCollection(geo_types::GeometryCollection::<f64>::default()));
    assert!(s.is_err(), "GeometryCollection converted into a shape");
    std::mem::forget(s);
    let s = Shape::try_from(Geometry::Rect(geo_types::Rect::new(Coord { x: 0.0, y: 0.0 }, Coord { x: 1.0, y: 1.0 })));
    assert!(s.is_err(), "Rect converted into a shape");
    std::mem::forget(s);
    let s = Shape::try_from(Geometry::Triangle(geo_types::Triangle::new(Coord { x: 0.0, y: 0.0 }, Coord { x: 1.0, y: 1.0 }, Coord { x: 0.0, y: 1.0 })));
    assert!(s.is_err(), "Triangle converted into a shape");
    std::mem::forget(s);
    kani::cover!(true);
}
